"""ALIAS - ownership / aliasing / mutation-effect analysis (flow-sensitive per function, summaries across calls).

Every value-carrying expression is abstracted by a set of *origin tags*:

    P:<param>     the object bound to parameter <param> of the function under analysis (or reachable from it by
                  attribute / element access)
    A:<attr>      the object currently stored in self.<attr>
    FRESH         an object created here (constructor call, literal, comprehension, copy/deepcopy, list()/dict()/set()/
                  sorted(), any call result that is not a known alias-returning accessor)

Tags flow through assignments, conditional expressions, `x or y`, tuple unpacking and the join at control-flow merges
(union).  A *mutation site* is: item/attribute-of-item store or delete on a tagged base, an augmented assignment that
extends a container, or a call of one of the mutating methods of list/dict/set/networkx graphs.

Per function the analysis yields a summary:
    mutates[p]      parameter p may be mutated (here or in a callee it is passed to)         -> list of sites
    stores[attr]    tags that may be stored into self.<attr>
    attr_mut[attr]  self.<attr> (object) may be mutated here                                  -> list of sites
    returns         tags of returned values
    passes          (callee, param) <- tags   for calls resolved in the program model
"""
from __future__ import annotations

import ast
from dataclasses import dataclass, field
from typing import Dict, FrozenSet, List, Optional, Set, Tuple

from .flow import Flow
from .pm import Program, FuncInfo, ClassInfo, dotted, norm, is_super_call

FRESH = "FRESH"

LIST_MUT = {"append", "extend", "insert", "remove", "pop", "clear", "sort", "reverse"}
DICT_MUT = {"update", "setdefault", "popitem", "pop", "clear", "__setitem__", "__delitem__"}
SET_MUT = {"add", "discard", "remove", "pop", "clear", "update", "difference_update", "intersection_update",
           "symmetric_difference_update"}
GRAPH_MUT = {"add_edge", "add_node", "add_edges_from", "add_nodes_from", "add_weighted_edges_from", "remove_edge",
             "remove_node", "remove_edges_from", "remove_nodes_from", "clear", "clear_edges", "update"}
MUTATORS = LIST_MUT | DICT_MUT | SET_MUT | GRAPH_MUT

# calls whose result is a new object regardless of the argument
COPY_FUNCS = {"copy.deepcopy", "deepcopy", "copy.copy", "list", "dict", "set", "frozenset", "tuple", "sorted", "str",
              "int", "float", "len", "sum", "max", "min", "any", "all", "abs", "round", "range", "enumerate", "zip",
              "reversed", "map", "filter", "isinstance", "id", "type", "repr", "bool", "iter", "next"}
COPY_METHODS = {"copy", "union", "difference", "intersection", "symmetric_difference", "items", "keys", "values",
                "to_directed", "subgraph_copy", "number_of_edges", "number_of_nodes", "in_degree", "out_degree",
                "successors", "predecessors", "has_edge", "has_node", "join", "format", "split", "issubset"}
# shallow copies: a new container that shares its elements with the argument
SHALLOW_FUNCS = {"dict", "list", "copy.copy", "tuple", "sorted", "reversed"}
# accessors returning a reference *into* the receiver
VIEW_METHODS = {"get", "setdefault", "nodes", "edges", "__getitem__"}


class Env:
    __slots__ = ("d",)

    def __init__(self, d=None):
        self.d: Dict[str, FrozenSet[str]] = d or {}

    def get(self, k) -> FrozenSet[str]:
        return self.d.get(k, frozenset())

    def set(self, k, v) -> "Env":
        nd = dict(self.d)
        nd[k] = frozenset(v)
        return Env(nd)

    def __eq__(self, o):
        return isinstance(o, Env) and self.d == o.d

    def __hash__(self):
        return hash(frozenset(self.d.items()))


@dataclass
class Site:
    func: str
    loc: str
    text: str
    kind: str


@dataclass
class Summary:
    func: FuncInfo
    ctx: Optional[ClassInfo]
    mutates: Dict[str, List[Site]] = field(default_factory=dict)
    attr_mut: Dict[str, List[Site]] = field(default_factory=dict)
    ret_mut: Dict[str, List[Site]] = field(default_factory=dict)      # results of in-package calls that are mutated here
    stores: Dict[str, Set[str]] = field(default_factory=dict)
    returns: Set[str] = field(default_factory=set)
    passes: List[Tuple[object, str, FrozenSet[str], str]] = field(default_factory=list)  # (callee FuncInfo, param, tags, loc)


class AliasFlow(Flow):
    def __init__(self, prog: Program, f: FuncInfo, ctx_cls: Optional[ClassInfo]):
        self.prog = prog
        self.f = f
        self.ctx = ctx_cls
        self.sum = Summary(f, ctx_cls)
        self.self_name = f.params[0] if (f.cls is not None and f.params and not self._is_static()) else None

    def _is_static(self):
        return any(dotted(d) in ("staticmethod",) for d in getattr(self.f.node, "decorator_list", []))

    # ------------------------------------------------------------ lattice
    def initial(self, func):
        d = {}
        for p in self.f.params:
            if p == self.self_name:
                continue
            d[p] = frozenset([f"P:{p}"])
        return Env(d)

    def join(self, a: Env, b: Env) -> Env:
        keys = set(a.d) | set(b.d)
        return Env({k: a.get(k) | b.get(k) for k in keys})

    # ------------------------------------------------------- expressions
    def tags(self, e: ast.AST, env: Env) -> FrozenSet[str]:
        if e is None:
            return frozenset()
        if isinstance(e, ast.Name):
            return env.get(e.id)
        if isinstance(e, ast.Attribute):
            if self.self_name and isinstance(e.value, ast.Name) and e.value.id == self.self_name:
                k = f"self.{e.attr}"
                if k in env.d:
                    return env.d[k]          # assigned earlier in this function: flow-sensitive view
                return frozenset([f"A:{e.attr}"])
            # attribute of a tagged object is reachable from it
            return frozenset(t for t in self.tags(e.value, env) if t != FRESH)
        if isinstance(e, ast.Subscript) and isinstance(e.slice, ast.Constant) and dotted(e.value) and f"{dotted(e.value)}[{e.slice.value!r}]" in env.d:
            return env.d[f"{dotted(e.value)}[{e.slice.value!r}]"]
        if isinstance(e, ast.Subscript):
            # an element of a *shallow copy* (tag S:<t>) is the very element of the copied object
            return frozenset((t[2:] if t.startswith("S:") else t) for t in self.tags(e.value, env) if t != FRESH)
        if isinstance(e, ast.IfExp):
            return self.tags(e.body, env) | self.tags(e.orelse, env)
        if isinstance(e, ast.BoolOp):
            out = frozenset()
            for v in e.values:
                out |= self.tags(v, env)
            return out
        if isinstance(e, ast.NamedExpr):
            return self.tags(e.value, env)
        if isinstance(e, ast.Starred):
            return self.tags(e.value, env)
        if isinstance(e, (ast.List, ast.Tuple, ast.Set, ast.Dict, ast.ListComp, ast.SetComp, ast.DictComp,
                          ast.GeneratorExp, ast.Constant, ast.JoinedStr, ast.BinOp, ast.UnaryOp, ast.Compare,
                          ast.Lambda)):
            return frozenset([FRESH])
        if isinstance(e, ast.Call):
            fn = dotted(e.func) or ""
            if fn in SHALLOW_FUNCS and len(e.args) == 1 and not e.keywords:
                # new outer container, shared contents
                inner = self.tags(e.args[0], env) or frozenset()
                return frozenset([FRESH]) | frozenset(f"S:{t}" for t in inner if t != FRESH and not t.startswith("S:"))
            if fn in COPY_FUNCS:
                return frozenset([FRESH])
            if isinstance(e.func, ast.Attribute):
                m = e.func.attr
                if m in VIEW_METHODS:
                    base = self.tags(e.func.value, env)
                    extra = frozenset()
                    if m in ("get", "setdefault") and len(e.args) > 1:
                        extra = self.tags(e.args[1], env)
                    return frozenset(t for t in base if t != FRESH) | extra | (frozenset([FRESH]) if not base else frozenset())
                if m == "copy" and not e.args:
                    inner = self.tags(e.func.value, env) or frozenset()
                    return frozenset([FRESH]) | frozenset(f"S:{t}" for t in inner if t != FRESH and not t.startswith("S:"))
                if m in COPY_METHODS:
                    return frozenset([FRESH])
            tgt = self._resolve(e)
            if isinstance(tgt, FuncInfo) and tgt.name != "__init__":
                # summary-based: handled by the interprocedural pass through `returns`; be conservative for self-methods
                return frozenset([f"R:{tgt.module.name}:{tgt.qualname}"])
            return frozenset([FRESH])
        return frozenset()

    def _resolve(self, call: ast.Call):
        if is_super_call(call) and self.f.cls is not None:
            return self.prog.resolve_super_call(call, self.f.cls)
        try:
            return self.prog.resolve_call(call, self.f.module, self.ctx or self.f.cls, self_name=self.self_name or "self")
        except Exception:
            return None

    # ----------------------------------------------------------- effects
    def _site(self, node, kind) -> Site:
        return Site(self.f.qualname, self.f.loc(node), norm(node)[:110], kind)

    def _mutation(self, tags: FrozenSet[str], node, kind):
        for t in tags:
            if t.startswith("S:"):
                continue        # the shallow copy itself is a new object; only its (shared) elements can leak a mutation
            if t.startswith("P:"):
                self.sum.mutates.setdefault(t[2:], []).append(self._site(node, kind))
            elif t.startswith("A:"):
                self.sum.attr_mut.setdefault(t[2:], []).append(self._site(node, kind))
            elif t.startswith("R:"):
                self.sum.ret_mut.setdefault(t[2:], []).append(self._site(node, kind))

    def _scan_calls(self, e: ast.AST, env: Env):
        for n in ast.walk(e):
            if not isinstance(n, ast.Call):
                continue
            if isinstance(n.func, ast.Attribute) and n.func.attr in MUTATORS:
                base = self.tags(n.func.value, env)
                recv = n.func.value
                # x.pop()/x.update() on non-container receivers (e.g. stack locals) have no tags -> ignored
                self._mutation(frozenset(t for t in base if t != FRESH), n, f"call .{n.func.attr}()")
            tgt = self._resolve(n)
            if isinstance(tgt, FuncInfo):
                params = [p for p in tgt.params]
                if tgt.cls is not None and params and not any(dotted(d) == "staticmethod" for d in tgt.node.decorator_list):
                    params = params[1:]
                for i, a in enumerate(n.args):
                    if isinstance(a, ast.Starred) or i >= len(params):
                        continue
                    tg = self.tags(a, env)
                    if tg - {FRESH}:
                        self.sum.passes.append((tgt, params[i], tg, self.f.loc(n)))
                for k in n.keywords:
                    if k.arg is None:
                        continue
                    tg = self.tags(k.value, env)
                    if tg - {FRESH} and k.arg in tgt.params:
                        self.sum.passes.append((tgt, k.arg, tg, self.f.loc(n)))

    def _assign_target(self, t: ast.AST, val_tags: FrozenSet[str], env: Env, node) -> Env:
        if isinstance(t, ast.Name):
            return env.set(t.id, val_tags)
        if isinstance(t, (ast.Tuple, ast.List)):
            for el in t.elts:
                env = self._assign_target(el, frozenset(x for x in val_tags if x != FRESH) or val_tags, env, node)
            return env
        if isinstance(t, ast.Starred):
            return self._assign_target(t.value, val_tags, env, node)
        if isinstance(t, ast.Attribute):
            if self.self_name and isinstance(t.value, ast.Name) and t.value.id == self.self_name:
                self.sum.stores.setdefault(t.attr, set()).update(val_tags)
                return env.set(f"self.{t.attr}", val_tags)
            # attribute store on some other object: mutation of that object
            base = self.tags(t.value, env)
            self._mutation(frozenset(x for x in base if x != FRESH), node, "attribute store")
            return env
        if isinstance(t, ast.Subscript):
            base = self.tags(t.value, env)
            self._mutation(frozenset(x for x in base if x != FRESH), node, "item store")
            # flow-sensitive view of an item with a constant key: X['k'] = v makes later reads of X['k'] denote v
            if isinstance(t.slice, ast.Constant) and dotted(t.value):
                return env.set(f"{dotted(t.value)}[{t.slice.value!r}]", val_tags)
            return env
        return env

    def transfer(self, stmt, env: Env) -> Env:
        if isinstance(stmt, ast.Assign):
            self._scan_calls(stmt.value, env)
            vt = self.tags(stmt.value, env)
            for t in stmt.targets:
                env = self._assign_target(t, vt, env, stmt)
            return env
        if isinstance(stmt, ast.AnnAssign):
            if stmt.value is not None:
                self._scan_calls(stmt.value, env)
                env = self._assign_target(stmt.target, self.tags(stmt.value, env), env, stmt)
            return env
        if isinstance(stmt, ast.AugAssign):
            self._scan_calls(stmt.value, env)
            tgt = stmt.target
            container_rhs = isinstance(stmt.value, (ast.List, ast.ListComp, ast.Set, ast.SetComp, ast.Dict, ast.DictComp)) or \
                (isinstance(stmt.value, ast.Call) and (dotted(stmt.value.func) or "") in ("list", "set", "dict"))
            if isinstance(tgt, ast.Name):
                tg = env.get(tgt.id)
                if container_rhs or isinstance(stmt.op, (ast.BitOr, ast.BitAnd)) and self._looks_container(tgt.id, env):
                    self._mutation(frozenset(x for x in tg if x != FRESH), stmt, "augmented assignment (in-place extend)")
                return env
            if isinstance(tgt, ast.Attribute) and self.self_name and isinstance(tgt.value, ast.Name) and tgt.value.id == self.self_name:
                if container_rhs or isinstance(stmt.op, (ast.BitOr, ast.BitAnd)) or (isinstance(stmt.op, ast.Add) and self._attr_is_container(tgt.attr)):
                    self._mutation(frozenset(x for x in self.tags(tgt, env) if x != FRESH), stmt, "augmented assignment (in-place extend)")
                return env
            if isinstance(tgt, (ast.Subscript, ast.Attribute)):
                base = self.tags(tgt.value, env)
                self._mutation(frozenset(x for x in base if x != FRESH), stmt, "augmented item store")
            return env
        if isinstance(stmt, ast.Delete):
            for t in stmt.targets:
                if isinstance(t, ast.Subscript):
                    self._mutation(frozenset(x for x in self.tags(t.value, env) if x != FRESH), stmt, "item delete")
            return env
        if isinstance(stmt, ast.Expr):
            self._scan_calls(stmt.value, env)
            return env
        if isinstance(stmt, ast.Return):
            if stmt.value is not None:
                self._scan_calls(stmt.value, env)
                self.sum.returns |= set(self.tags(stmt.value, env))
            return env
        if isinstance(stmt, (ast.Assert,)):
            self._scan_calls(stmt.test, env)
            return env
        return env

    def _looks_container(self, name, env):
        return True

    def _attr_is_container(self, attr: str) -> bool:
        """self.<attr> is assigned a list / set / dict display (or list() / set() / dict()) somewhere in this function: `self.<attr> += value`
        then extends that object in place - also when the attribute was meanwhile re-bound to an object of the caller"""
        cache = self.__dict__.setdefault("_container_attrs", None)
        if cache is None:
            cache = set()
            for st in ast.walk(self.f.node):
                if isinstance(st, ast.Assign) and isinstance(st.value, (ast.List, ast.Set, ast.Dict, ast.ListComp, ast.SetComp, ast.DictComp)) or \
                        (isinstance(st, ast.Assign) and isinstance(st.value, ast.Call) and (dotted(st.value.func) or "") in ("list", "set", "dict")):
                    for t in st.targets:
                        if isinstance(t, ast.Attribute) and isinstance(t.value, ast.Name) and t.value.id == self.self_name:
                            cache.add(t.attr)
            self._container_attrs = cache
        return attr in cache

    def refine(self, test, pol, env):
        self._scan_calls(test, env)
        return env

    def bind_for(self, stmt, env):
        self._scan_calls(stmt.iter, env)
        it = self.tags(stmt.iter, env)
        elem = frozenset(t for t in it if t != FRESH)
        return self._assign_target(stmt.target, elem, env, stmt)

    def enter_with(self, stmt, env):
        for it in stmt.items:
            self._scan_calls(it.context_expr, env)
            if it.optional_vars is not None:
                env = self._assign_target(it.optional_vars, self.tags(it.context_expr, env), env, stmt)
        return env

    def on_raise(self, stmt, env):
        if stmt.exc is not None:
            self._scan_calls(stmt.exc, env)


def summarize(prog: Program, f: FuncInfo, ctx: Optional[ClassInfo]) -> Summary:
    fl = AliasFlow(prog, f, ctx)
    fl.run(f.node)
    return fl.sum


class AliasModel:
    """Whole-program propagation of the per-function summaries."""

    def __init__(self, prog: Program):
        self.prog = prog
        self.summaries: Dict[Tuple[str, str], Summary] = {}
        for f in prog.all_functions():
            self.summaries[(f.module.name, f.qualname)] = summarize(prog, f, f.cls)
        self._close()

    def key(self, f: FuncInfo):
        return (f.module.name, f.qualname)

    def get(self, f: FuncInfo) -> Summary:
        return self.summaries[self.key(f)]

    def _close(self):
        """Propagate 'callee mutates its parameter' back to the caller's tags, to a fixpoint."""
        changed = True
        rounds = 0
        while changed and rounds < 12:
            changed = False
            rounds += 1
            for s in self.summaries.values():
                for (callee, param, tags, loc) in s.passes:
                    cs = self.summaries.get(self.key(callee))
                    if cs is None:
                        continue
                    sites = cs.mutates.get(param)
                    if not sites:
                        continue
                    for t in tags:
                        via = Site(s.func.qualname, loc, f"passes it to {callee.qualname}({param}=...) which mutates it at "
                                   f"{sites[0].loc}: {sites[0].text}", "via callee")
                        if t.startswith("P:"):
                            lst = s.mutates.setdefault(t[2:], [])
                            if not any(x.loc == via.loc and x.kind == "via callee" for x in lst):
                                lst.append(via)
                                changed = True
                        elif t.startswith("A:"):
                            lst = s.attr_mut.setdefault(t[2:], [])
                            if not any(x.loc == via.loc and x.kind == "via callee" for x in lst):
                                lst.append(via)
                                changed = True
        self.rounds = rounds

    # ------------------------------------------------------------------ class-level view
    def attr_holders(self, cls: ClassInfo) -> Dict[str, Set[Tuple[str, str]]]:
        """attr -> set of (method qualname, param) such that self.<attr> may hold the object bound to that method's param.
        Resolves attr-to-attr copies and constructor chaining (super().__init__(x=...))."""
        direct: Dict[str, Set[str]] = {}
        meths = {}
        for c in reversed(self.prog.mro(cls)):
            for name, f in c.methods.items():
                meths[name] = f
        # stores by every method in the MRO (own methods shadow)
        per_method = {}
        for name, f in meths.items():
            per_method[name] = self.get(f).stores
        holders: Dict[str, Set[Tuple[str, str]]] = {}
        attr_alias: Dict[str, Set[str]] = {}
        for name, stores in per_method.items():
            f = meths[name]
            for attr, tags in stores.items():
                for t in tags:
                    if t.startswith("P:"):
                        holders.setdefault(attr, set()).add((f.qualname, t[2:]))
                    elif t.startswith("A:"):
                        attr_alias.setdefault(attr, set()).add(t[2:])
        # constructor chaining: params of base-class methods bound from tags at super() / self.m() calls
        for _ in range(6):
            grew = False
            for name, f in meths.items():
                s = self.get(f)
                for (callee, param, tags, loc) in s.passes:
                    if callee.cls is None or not any(callee is m for m in meths.values()):
                        continue
                    # what the callee stores from this param
                    cs = self.get(callee)
                    for attr, stags in cs.stores.items():
                        if f"P:{param}" in stags:
                            for t in tags:
                                if t.startswith("P:"):
                                    item = (f.qualname, t[2:])
                                    if item not in holders.setdefault(attr, set()):
                                        holders[attr].add(item)
                                        grew = True
                                elif t.startswith("A:"):
                                    if t[2:] not in attr_alias.setdefault(attr, set()):
                                        attr_alias[attr].add(t[2:])
                                        grew = True
            for attr, srcs in list(attr_alias.items()):
                for sattr in srcs:
                    for item in list(holders.get(sattr, ())):
                        if item not in holders.setdefault(attr, set()):
                            holders[attr].add(item)
                            grew = True
            if not grew:
                break
        return holders
