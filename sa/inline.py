"""Restore the reviewed decomposition into functions.

The rules were written - and their tables frozen - against the functions of the reviewed tree
(formulation/known_functions.json).  A later tree may move code into *new* helpers (methods, static methods, module-level
functions, nested functions, lambdas bound to a local) without changing behaviour.  This pass inlines every call of a
helper that the reviewed tree did not have back into its callers, so that every rule sees the code where it used to be:

    self._new_helper(a, b)                 statement  -> the helper's body, parameters bound to the arguments
    x = self._new_helper(a)                statement  -> body; `return v` becomes `x = v`
    return self._new_helper(a)             statement  -> body; returns stay returns
    ... f(a) ... inside an expression                 -> the returned expression, if the helper only computes a value

Early returns of the helper are eliminated structurally (`if c: return` -> the remainder moves into the else branch).
Helpers whose returns sit inside loops / try blocks, recursive helpers, helpers taking *args / **kwargs and calls with
star arguments are left alone (the rules then report what they cannot recognise as an analysis error, never as a
violation).  Private methods that were merely *renamed* (a reviewed method is gone, a new one has the same body) are
renamed back, together with their call sites.
"""
from __future__ import annotations

import ast
import copy
import json
import os
from typing import Dict, List, Optional, Set, Tuple

HERE = os.path.dirname(os.path.dirname(os.path.abspath(__file__)))
KNOWN = os.path.join(HERE, "formulation", "known_functions.json")
_CTR = [0]
MAX_ROUNDS = 4


def _fresh(base: str) -> str:
    _CTR[0] += 1
    return f"_inl{_CTR[0]}_{base}"


def load_known() -> Optional[Dict[str, List[str]]]:
    if os.environ.get("VERIF_NO_INLINE") or not os.path.exists(KNOWN):
        return None
    return dict(json.load(open(KNOWN))["functions"])


def function_keys(tree: ast.Module, modname: str) -> List[Tuple[str, ast.AST, Optional[ast.ClassDef], Optional[ast.AST]]]:
    """(key, node, class, enclosing function) for every def / lambda-bound-to-a-name of a module"""
    out = []

    def visit(body, prefix, cls, encl):
        for st in body:
            if isinstance(st, (ast.FunctionDef, ast.AsyncFunctionDef)):
                key = f"{modname}:{prefix}{st.name}"
                out.append((key, st, cls, encl))
                visit_fn(st, f"{prefix}{st.name}.", cls)
            elif isinstance(st, ast.ClassDef):
                visit(st.body, f"{prefix}{st.name}.", st, None)
            elif isinstance(st, (ast.If, ast.Try, ast.With, ast.For, ast.While)):
                for fld in ("body", "orelse", "finalbody"):
                    visit(getattr(st, fld, []) or [], prefix, cls, encl)
                for h in getattr(st, "handlers", []) or []:
                    visit(h.body, prefix, cls, encl)

    def visit_fn(fn, prefix, cls):
        def rec(body):
            for st in body:
                if isinstance(st, (ast.FunctionDef, ast.AsyncFunctionDef)):
                    out.append((f"{modname}:{prefix}{st.name}", st, cls, fn))
                    visit_fn(st, f"{prefix}{st.name}.", cls)
                elif isinstance(st, ast.Assign) and len(st.targets) == 1 and isinstance(st.targets[0], ast.Name) and isinstance(st.value, ast.Lambda):
                    out.append((f"{modname}:{prefix}{st.targets[0].id}", st, cls, fn))
                else:
                    for fld in ("body", "orelse", "finalbody"):
                        rec(getattr(st, fld, []) or [])
                    for h in getattr(st, "handlers", []) or []:
                        rec(h.body)
        rec(fn.body)

    visit(tree.body, "", None, None)
    return out


# ----------------------------------------------------------------------------------------------- helpers
def _params(fn) -> Optional[Tuple[List[str], Dict[str, ast.AST]]]:
    a = fn.args
    if a.vararg or a.kwarg:
        return None
    names = [p.arg for p in a.posonlyargs + a.args] + [p.arg for p in a.kwonlyargs]
    pos = a.posonlyargs + a.args
    defaults = {p.arg: d for p, d in zip(pos[len(pos) - len(a.defaults):], a.defaults)} if a.defaults else {}
    for p, d in zip(a.kwonlyargs, a.kw_defaults):
        if d is not None:
            defaults[p.arg] = d
    return names, defaults


def _decorators(fn) -> Set[str]:
    return {(d.id if isinstance(d, ast.Name) else getattr(d, "attr", "")) for d in getattr(fn, "decorator_list", [])}


def _simple(e: ast.AST) -> bool:
    if isinstance(e, (ast.Name, ast.Constant)):
        return True
    if isinstance(e, ast.Attribute):
        return _simple(e.value)
    if isinstance(e, ast.Subscript):
        return _simple(e.value) and _simple(e.slice)
    if isinstance(e, ast.Tuple):
        return all(_simple(x) for x in e.elts)
    if isinstance(e, ast.Call) and isinstance(e.func, ast.Name) and e.func.id == "len" and len(e.args) == 1:
        return _simple(e.args[0])
    return False


def _stored_names(node: ast.AST) -> Set[str]:
    out = set()
    for n in ast.walk(node):
        if isinstance(n, ast.Name) and isinstance(n.ctx, (ast.Store, ast.Del)):
            out.add(n.id)
        elif isinstance(n, ast.arg):
            out.add(n.arg)
    return out


class _Rename(ast.NodeTransformer):
    def __init__(self, names: Dict[str, ast.AST]):
        self.names = names

    def visit_Name(self, node):
        if node.id in self.names:
            rep = self.names[node.id]
            if isinstance(rep, str):
                return ast.copy_location(ast.Name(id=rep, ctx=node.ctx), node)
            if isinstance(node.ctx, ast.Load):
                return copy.deepcopy(rep)
        return node

    def _scoped(self, node):
        # nested function / lambda / comprehension: names they bind shadow the mapping
        bound = set()
        if isinstance(node, (ast.FunctionDef, ast.AsyncFunctionDef, ast.Lambda)):
            a = node.args
            bound = {p.arg for p in a.posonlyargs + a.args + a.kwonlyargs}
            if a.vararg:
                bound.add(a.vararg.arg)
            if a.kwarg:
                bound.add(a.kwarg.arg)
        else:
            for g in node.generators:
                bound |= {n.id for n in ast.walk(g.target) if isinstance(n, ast.Name)}
        inner = {k: v for k, v in self.names.items() if k not in bound}
        sub = _Rename(inner)
        if isinstance(node, (ast.GeneratorExp, ast.ListComp, ast.SetComp, ast.DictComp)):
            # the first iterable is evaluated in the enclosing scope
            for i, g in enumerate(node.generators):
                g.iter = (self if i == 0 else sub).visit(g.iter)
                g.ifs = [sub.visit(c) for c in g.ifs]
            for fld in ("elt", "key", "value"):
                if hasattr(node, fld):
                    setattr(node, fld, sub.visit(getattr(node, fld)))
            return node
        for fld, val in ast.iter_fields(node):
            if fld == "args" and not isinstance(node, ast.Call):
                for d in list(val.defaults) + [d for d in val.kw_defaults if d is not None]:
                    self.visit(d)
                continue
            if isinstance(val, list):
                setattr(node, fld, [sub.visit(v) if isinstance(v, ast.AST) else v for v in val])
            elif isinstance(val, ast.AST):
                setattr(node, fld, sub.visit(val))
        return node

    visit_Lambda = _scoped
    visit_FunctionDef = _scoped
    visit_GeneratorExp = _scoped
    visit_ListComp = _scoped
    visit_SetComp = _scoped
    visit_DictComp = _scoped


def _has_loop_return(stmts: List[ast.stmt]) -> bool:
    for st in stmts:
        if isinstance(st, (ast.For, ast.While, ast.AsyncFor)):
            if any(isinstance(n, ast.Return) for s in st.body + st.orelse for n in _walk_stmts(s)):
                return True
        elif isinstance(st, ast.Try):
            if any(isinstance(n, ast.Return) for n in _walk_stmts(st)):
                return True
        elif isinstance(st, (ast.If, ast.With)):
            if _has_loop_return(st.body) or _has_loop_return(getattr(st, "orelse", []) or []):
                return True
    return False


def _walk_stmts(node):
    """walk without entering nested function definitions"""
    stack = [node]
    while stack:
        n = stack.pop()
        yield n
        for c in ast.iter_child_nodes(n):
            if isinstance(c, (ast.FunctionDef, ast.AsyncFunctionDef, ast.Lambda, ast.ClassDef)):
                continue
            stack.append(c)


def _eliminate_returns(stmts: List[ast.stmt], on_return) -> List[ast.stmt]:
    """structured elimination of returns; on_return(value or None) -> replacement statements"""
    out: List[ast.stmt] = []
    for i, st in enumerate(stmts):
        if isinstance(st, ast.Return):
            out.extend(on_return(st.value))
            return out
        if isinstance(st, ast.If) and any(isinstance(n, ast.Return) for n in _walk_stmts(st)):
            rest = stmts[i + 1:]
            body_ret = _always_returns(st.body)
            else_ret = _always_returns(st.orelse)
            b = _eliminate_returns(st.body + ([] if body_ret else rest), on_return) if True else None
            o = _eliminate_returns(st.orelse + ([] if else_ret else rest), on_return)
            new = ast.If(test=st.test, body=b or [ast.Pass()], orelse=o)
            out.append(ast.copy_location(new, st))
            return out
        if isinstance(st, ast.With) and any(isinstance(n, ast.Return) for n in _walk_stmts(st)):
            # a return inside `with` followed by statements: keep structure, continue after it only if it falls through
            inner = _eliminate_returns(st.body, on_return)
            out.append(ast.copy_location(ast.With(items=st.items, body=inner or [ast.Pass()]), st))
            if _always_returns(st.body):
                return out
            continue
        out.append(st)
    return out


def _always_returns(stmts: List[ast.stmt]) -> bool:
    if not stmts:
        return False
    last = stmts[-1]
    if isinstance(last, (ast.Return, ast.Raise)):
        return True
    if isinstance(last, ast.If):
        return _always_returns(last.body) and _always_returns(last.orelse)
    if isinstance(last, ast.With):
        return _always_returns(last.body)
    return False


def _single_returned_local(body: List[ast.stmt]) -> Optional[str]:
    """name of the local that every return of the body returns (the body always returns), else None"""
    rets = [n for s_ in body for n in _walk_stmts(s_) if isinstance(n, ast.Return)]
    if not rets or not _always_returns(body):
        return None
    names = {n.value.id if isinstance(n.value, ast.Name) else None for n in rets}
    if len(names) != 1 or None in names:
        return None
    nm = names.pop()
    stored = any(isinstance(n, ast.Name) and n.id == nm and isinstance(n.ctx, ast.Store) for s_ in body for n in ast.walk(s_))
    return nm if stored and len(rets) == 1 and isinstance(body[-1], ast.Return) else None


def _is_log_call(e: ast.AST) -> bool:
    """utils.logger.error(...) / logging.info(...) / print(...): no effect any rule describes"""
    if not isinstance(e, ast.Call):
        return False
    try:
        d = ast.unparse(e.func)
    except Exception:
        return False
    return d == "print" or ".logger." in d or d.startswith("logger.") or d.startswith("logging.")


def _pure_value(fn) -> Optional[ast.AST]:
    """the value of a helper that only computes and returns an expression, as an expression over its parameters"""
    if isinstance(fn, ast.Assign):          # name = lambda ...: expr
        return fn.value.body
    env: Dict[str, ast.AST] = {}

    def run(stmts, env) -> Optional[ast.AST]:
        env = dict(env)
        for i, st in enumerate(stmts):
            if isinstance(st, ast.Expr) and (isinstance(st.value, ast.Constant) or _is_log_call(st.value)):
                continue
            if isinstance(st, ast.Assign) and len(st.targets) == 1 and isinstance(st.targets[0], ast.Name):
                env[st.targets[0].id] = _Rename(env).visit(copy.deepcopy(st.value))
                continue
            if isinstance(st, ast.Return) and st.value is not None:
                return _Rename(env).visit(copy.deepcopy(st.value))
            if isinstance(st, ast.If):
                if not any(isinstance(n, ast.Return) for n in _walk_stmts(st)):
                    # plain conditional assignments: continue with conditional values
                    test = _Rename(env).visit(copy.deepcopy(st.test))
                    e1 = assigns(st.body, env)
                    e2 = assigns(st.orelse, env)
                    if e1 is None or e2 is None:
                        return None
                    for k in set(e1) | set(e2):
                        a1, a2 = e1.get(k, env.get(k)), e2.get(k, env.get(k))
                        if a1 is None or a2 is None:
                            env.pop(k, None)
                        elif ast.dump(a1) == ast.dump(a2):
                            env[k] = a1
                        else:
                            env[k] = ast.IfExp(test=copy.deepcopy(test), body=a1, orelse=a2)
                    continue
                a = run(st.body, env)
                b = run(st.orelse + stmts[i + 1:], env)
                if a is None or b is None:
                    return None
                return ast.IfExp(test=_Rename(env).visit(copy.deepcopy(st.test)), body=a, orelse=b)
            return None
        return None

    def assigns(stmts, env) -> Optional[Dict[str, ast.AST]]:
        env = dict(env)
        out: Dict[str, ast.AST] = {}
        for st in stmts:
            if isinstance(st, ast.Expr) and isinstance(st.value, ast.Constant):
                continue
            if isinstance(st, ast.Pass):
                continue
            if isinstance(st, ast.Assign) and len(st.targets) == 1 and isinstance(st.targets[0], ast.Name):
                v = _Rename(env).visit(copy.deepcopy(st.value))
                env[st.targets[0].id] = v
                out[st.targets[0].id] = v
                continue
            return None
        return out
    for n in _walk_stmts(fn):
        if isinstance(n, (ast.For, ast.While, ast.Try, ast.With, ast.AugAssign, ast.Raise, ast.Global, ast.Nonlocal, ast.Yield, ast.YieldFrom, ast.Await)):
            return None
    return run(fn.body, env)


class Helper:
    def __init__(self, key, node, cls, encl, modname):
        self.key = key
        self.node = node
        self.cls = cls
        self.encl = encl
        self.modname = modname
        self.name = node.targets[0].id if isinstance(node, ast.Assign) else node.name
        fn = node.value if isinstance(node, ast.Assign) else node
        self.fn = fn
        self.decos = set() if isinstance(node, ast.Assign) else _decorators(node)
        self.params = _params(fn)
        self.is_method = cls is not None and encl is None
        self.value = _pure_value(node if isinstance(node, ast.Assign) else fn)
        self.ok = self.params is not None and not (self.decos - {"staticmethod", "classmethod"}) and \
            not any(isinstance(n, (ast.Yield, ast.YieldFrom, ast.Await, ast.Global, ast.Nonlocal)) for n in _walk_stmts(fn))

    def bind(self, call: ast.Call, receiver: Optional[ast.AST]) -> Optional[Dict[str, ast.AST]]:
        if not self.ok or any(isinstance(a, ast.Starred) for a in call.args) or any(k.arg is None for k in call.keywords):
            return None
        names, defaults = self.params
        names = list(names)
        out: Dict[str, ast.AST] = {}
        if self.is_method and "staticmethod" not in self.decos:
            if not names:
                return None
            first = names.pop(0)
            if receiver is None:
                return None
            out[first] = receiver
        if len(call.args) > len(names):
            return None
        for p, a in zip(names, call.args):
            out[p] = a
        for k in call.keywords:
            if k.arg not in names or k.arg in out:
                return None
            out[k.arg] = k.value
        for p in names:
            if p not in out:
                if p not in defaults:
                    return None
                out[p] = defaults[p]
        return out


class Inliner:
    def __init__(self, modules: Dict[str, "object"], known: Set[str], known_lit: Optional[Dict[str, int]] = None):
        self.modules = modules
        self.known = known
        self.known_lit = known_lit or {}
        self.helpers: Dict[str, Helper] = {}            # key -> Helper (new functions only)
        self.by_class: Dict[Tuple[str, str], Dict[str, Helper]] = {}
        self.by_module: Dict[str, Dict[str, Helper]] = {}
        self.by_encl: Dict[int, Dict[str, Helper]] = {}
        self.class_bases: Dict[Tuple[str, str], List[str]] = {}
        self.report: List[str] = []
        for modname, mod in modules.items():
            for key, node, cls, encl in function_keys(mod.tree, modname):
                if key in known:
                    continue
                h = Helper(key, node, cls, encl, modname)
                self.helpers[key] = h
                if encl is not None:
                    # a nested helper is inlined only if it is *the* definition of its name: bound once, unconditionally, at
                    # the top level of the enclosing function (conditionally defined variants are chosen at run time)
                    binds = sum(1 for n in ast.walk(encl) if (isinstance(n, (ast.FunctionDef, ast.AsyncFunctionDef)) and n is not encl and n.name == h.name) or
                                (isinstance(n, ast.Name) and isinstance(n.ctx, ast.Store) and n.id == h.name))
                    if binds != 1 or not any(node is s_ for s_ in encl.body):
                        continue
                    self.by_encl.setdefault(id(encl), {})[h.name] = h
                elif cls is not None:
                    self.by_class.setdefault((modname, cls.name), {})[h.name] = h
                else:
                    self.by_module.setdefault(modname, {})[h.name] = h
            for st in mod.tree.body:
                if isinstance(st, ast.ClassDef):
                    self.class_bases[(modname, st.name)] = [b.attr if isinstance(b, ast.Attribute) else getattr(b, "id", "") for b in st.bases]

    # -------------------------------------------------------------------------------------------- resolution
    def _class_helpers(self, modname: str, cls: ast.ClassDef) -> Dict[str, Helper]:
        out: Dict[str, Helper] = {}
        seen = set()
        todo = [(modname, cls.name)]
        while todo:
            k = todo.pop(0)
            if k in seen:
                continue
            seen.add(k)
            for nm, h in self.by_class.get(k, {}).items():
                out.setdefault(nm, h)
            for b in self.class_bases.get(k, []):
                for (m2, c2) in self.class_bases:
                    if c2 == b:
                        todo.append((m2, c2))
        return out

    def resolve(self, call: ast.Call, modname: str, cls: Optional[ast.ClassDef], encl_chain: List[ast.AST]) -> Optional[Tuple[Helper, Optional[ast.AST]]]:
        f = call.func
        if isinstance(f, ast.Name):
            for e in reversed(encl_chain):
                h = self.by_encl.get(id(e), {}).get(f.id)
                if h is not None:
                    return h, None
            h = self.by_module.get(modname, {}).get(f.id)
            if h is not None:
                return h, None
            return None
        if isinstance(f, ast.Attribute) and isinstance(f.value, ast.Name) and cls is not None:
            if f.value.id in ("self", "cls") or f.value.id == cls.name:
                h = self._class_helpers(modname, cls).get(f.attr)
                if h is not None:
                    recv = f.value if f.value.id != cls.name else None
                    if f.value.id == cls.name and "staticmethod" not in h.decos:
                        return None
                    return h, recv
        return None

    # -------------------------------------------------------------------------------------------- inlining
    def _instantiate(self, h: Helper, binding: Dict[str, ast.AST], caller=None, keep=()) -> Tuple[List[ast.stmt], Dict[str, ast.AST], List[ast.stmt]]:
        """(prelude assignments, name mapping, renamed body); locals of the helper keep their names unless the caller uses
        the same name (extracted code usually keeps the names it had before the extraction)"""
        fn = h.fn
        caller_names = {n.id for n in ast.walk(caller) if isinstance(n, ast.Name)} | {a.arg for a in ast.walk(caller) if isinstance(a, ast.arg)} \
            if caller is not None else None
        assigned = _stored_names(ast.Module(body=fn.body, type_ignores=[])) if not isinstance(fn, ast.Lambda) else set()
        mapping: Dict[str, ast.AST] = {}
        prelude: List[ast.stmt] = []
        for p, a in binding.items():
            if _simple(a) and p not in assigned:
                mapping[p] = copy.deepcopy(a)
            else:
                nm = _fresh(p)
                prelude.append(ast.Assign(targets=[ast.Name(id=nm, ctx=ast.Store())], value=copy.deepcopy(a), lineno=getattr(fn, "lineno", 0)))
                mapping[p] = nm
        for nm in sorted(assigned - set(binding)):
            if nm in keep:
                continue        # the helper's local *is* the variable the call assigns to
            if caller_names is None or nm in caller_names:
                mapping[nm] = _fresh(nm)
        body = [] if isinstance(fn, ast.Lambda) else [_Rename(mapping).visit(copy.deepcopy(s)) for s in fn.body]
        return prelude, mapping, body

    def _value_of(self, h: Helper, call: ast.Call, recv) -> Optional[ast.AST]:
        if h.value is None:
            return None
        b = h.bind(call, recv)
        if b is None or not all(_simple(a) or _count_uses(h.value, p) <= 1 for p, a in b.items()):
            return None
        return _Rename({p: copy.deepcopy(a) for p, a in b.items()}).visit(copy.deepcopy(h.value))

    def inline_function(self, fn: ast.AST, modname: str, cls: Optional[ast.ClassDef], encl_chain: List[ast.AST]) -> bool:
        changed = False
        chain = encl_chain + [fn]
        ex = self

        class ExprInl(ast.NodeTransformer):
            def visit_Call(self, node):
                node = self.generic_visit(node)
                r = ex.resolve(node, modname, cls, chain)
                if r is None:
                    return node
                h, recv = r
                v = ex._value_of(h, node, recv)
                if v is None:
                    return node
                nonlocal changed
                changed = True
                ex.report.append(f"{modname}: value of new helper `{h.name}` inlined into `{getattr(fn, 'name', '?')}`")
                return ast.copy_location(v, node)

            def visit_FunctionDef(self, node):
                return node

            visit_Lambda = visit_FunctionDef
            visit_AsyncFunctionDef = visit_FunctionDef

        def predicate_inline(st: ast.If) -> Optional[List[ast.stmt]]:
            """`if [not] H(args): <body ending in a jump>` where the new helper H is a predicate with early constant returns:
            the helper's loops are put in place of the `if`, every `return c` that makes the test true becomes the body."""
            if st.orelse or not st.body or not isinstance(st.body[-1], (ast.Return, ast.Raise, ast.Continue, ast.Break)):
                return None
            t, neg = st.test, False
            while isinstance(t, ast.UnaryOp) and isinstance(t.op, ast.Not):
                t, neg = t.operand, not neg
            if not isinstance(t, ast.Call):
                return None
            r = ex.resolve(t, modname, cls, chain)
            if r is None:
                return None
            h, recv = r
            if isinstance(h.fn, ast.Lambda) or h.fn is fn or h.value is not None:
                return None
            b = h.bind(t, recv)
            if b is None:
                return None
            rets = [n for n in _walk_stmts(h.fn) if isinstance(n, ast.Return)]
            if not rets or not all(isinstance(x.value, ast.Constant) and isinstance(x.value.value, bool) for x in rets):
                return None
            last = h.fn.body[-1]
            fires = lambda v: (not v) if neg else v
            for x in rets:
                if not fires(x.value.value) and x is not last:
                    return None
            if not isinstance(last, ast.Return):
                return None     # falling off the end returns None: not a two-valued predicate
            prelude, mapping, body = ex._instantiate(h, b, fn)
            if body and isinstance(body[0], ast.Expr) and isinstance(body[0].value, ast.Constant) and isinstance(body[0].value.value, str):
                body = body[1:]
            if isinstance(st.body[-1], (ast.Continue, ast.Break)) and any(isinstance(n, (ast.For, ast.While)) for s_ in body for n in _walk_stmts(s_)):
                return None     # a continue / break of the caller's loop would bind to the helper's loop

            class RR(ast.NodeTransformer):
                def visit_Return(self, node):
                    if fires(node.value.value):
                        return [copy.deepcopy(s_) for s_ in st.body]
                    return ast.Pass()

                def visit_FunctionDef(self, node):
                    return node
                visit_Lambda = visit_FunctionDef
            new_body = []
            for s_ in body:
                r_ = RR().visit(s_)
                new_body.extend(r_ if isinstance(r_, list) else [r_])
            ex.report.append(f"{modname}: predicate helper `{h.name}` inlined into `{getattr(fn, 'name', '?')}`")
            return prelude + new_body

        def unroll_literal_loop(st: ast.For) -> Optional[List[ast.stmt]]:
            """`for t in (A, B): body`  ->  body[t := A]; body[t := B]   (literal tuple / list of at most 4 simple elements)"""
            it = st.iter
            if st.orelse or not isinstance(it, (ast.Tuple, ast.List)) or not (1 <= len(it.elts) <= 4):
                return None
            if any(isinstance(n, (ast.Break, ast.Continue)) for s_ in st.body for n in _walk_stmts(s_)):
                return None
            tnames = [n.id for n in ast.walk(st.target) if isinstance(n, ast.Name)]
            if any(isinstance(n, ast.Name) and n.id in tnames and isinstance(n.ctx, ast.Store) for s_ in st.body for n in ast.walk(s_)):
                return None
            out_: List[ast.stmt] = []
            for el in it.elts:
                m: Dict[str, ast.AST] = {}
                if isinstance(st.target, ast.Name):
                    if not _simple(el):
                        return None
                    m[st.target.id] = el
                elif isinstance(st.target, (ast.Tuple, ast.List)) and isinstance(el, (ast.Tuple, ast.List)) and len(el.elts) == len(st.target.elts) and \
                        all(isinstance(x, ast.Name) for x in st.target.elts) and all(_simple(x) for x in el.elts):
                    for x, v in zip(st.target.elts, el.elts):
                        m[x.id] = v
                else:
                    return None
                out_.extend(_Rename(m).visit(copy.deepcopy(s_)) for s_ in st.body)
            if not ex.known_has_function(modname, fn):
                return None
            return out_

        def hoist_nested(st: ast.stmt) -> Optional[List[ast.stmt]]:
            """a call of a new helper that is more than an expression, nested inside a simple statement: evaluate it into a
            fresh local first (only when everything evaluated before it in that statement is a plain read)"""
            is_if = isinstance(st, ast.If)
            if not is_if and (not isinstance(st, (ast.Assign, ast.Expr, ast.Return)) or st.value is None):
                return None
            top = st.test if is_if else st.value
            found = None
            # calls that are evaluated unconditionally, exactly once, when the statement runs
            uncond: List[ast.AST] = []

            def collect(n):
                if isinstance(n, (ast.IfExp, ast.BoolOp, ast.Lambda, ast.GeneratorExp, ast.ListComp, ast.SetComp, ast.DictComp, ast.NamedExpr)):
                    return
                if isinstance(n, ast.Compare) and len(n.ops) > 1:
                    return
                uncond.append(n)
                for c in ast.iter_child_nodes(n):
                    collect(c)
            collect(top)
            for n in uncond:
                if isinstance(n, ast.Call) and (n is not top or is_if):
                    r = ex.resolve(n, modname, cls, chain)
                    if r is not None and r[0].value is None and not isinstance(r[0].fn, ast.Lambda) and r[0].fn is not fn and \
                            r[0].bind(n, r[1]) is not None and not _has_loop_return(r[0].fn.body):
                        found = n
                        break
            if found is None:
                return None
            # every other call / comprehension in the statement would make the evaluation order matter
            for n in ast.walk(top):
                if n is found or n is top:
                    continue
                if isinstance(n, (ast.Call, ast.GeneratorExp, ast.ListComp, ast.SetComp, ast.DictComp, ast.Await, ast.Yield, ast.NamedExpr)) and \
                        not any(x is n for x in ast.walk(found)):
                    return None
            nm = _fresh("ret")

            class R(ast.NodeTransformer):
                def visit_Call(self, node):
                    if node is found:
                        return ast.Name(id=nm, ctx=ast.Load())
                    return self.generic_visit(node)
            pre = ast.Assign(targets=[ast.Name(id=nm, ctx=ast.Store())], value=found, lineno=st.lineno)
            ast.copy_location(pre, st)
            if is_if:
                st.test = R().visit(st.test)
            else:
                st.value = R().visit(st.value)
            ast.fix_missing_locations(pre)
            return [pre, st]

        def block(stmts: List[ast.stmt]) -> List[ast.stmt]:
            nonlocal changed
            out: List[ast.stmt] = []
            stmts = list(stmts)
            idx = 0
            while idx < len(stmts):
                hn = hoist_nested(stmts[idx])
                if hn is not None:
                    stmts[idx:idx + 1] = hn
                    changed = True
                idx += 1
            for st in stmts:
                if isinstance(st, ast.If):
                    pi = predicate_inline(st)
                    if pi is not None:
                        for n_ in pi:
                            ast.fix_missing_locations(ast.copy_location(n_, st) if not hasattr(n_, "lineno") else n_)
                        out.extend(block(pi))
                        changed = True
                        continue
                if isinstance(st, ast.For) and ex.new_literal_loop(modname, fn, st):
                    ul = unroll_literal_loop(st)
                    if ul is not None:
                        for n_ in ul:
                            ast.fix_missing_locations(n_)
                        out.extend(block(ul))
                        changed = True
                        ex.report.append(f"{modname}: loop over a literal tuple unrolled in `{getattr(fn, 'name', '?')}`")
                        continue
                call = None
                mode = None
                if isinstance(st, ast.Expr) and isinstance(st.value, ast.Call):
                    call, mode = st.value, "stmt"
                elif isinstance(st, ast.Assign) and isinstance(st.value, ast.Call):
                    call, mode = st.value, "assign"
                elif isinstance(st, ast.Return) and isinstance(st.value, ast.Call):
                    call, mode = st.value, "return"
                r = ex.resolve(call, modname, cls, chain) if call is not None else None
                done = False
                if r is not None:
                    h, recv = r
                    b = h.bind(call, recv)
                    if b is not None and not isinstance(h.fn, ast.Lambda) and h.fn is not fn and not _has_loop_return(h.fn.body) and \
                            not (mode != "stmt" and ex._value_of(h, call, recv) is not None):
                        # arguments may themselves contain inlinable value helpers
                        b = {p: ExprInl().visit(copy.deepcopy(a)) for p, a in b.items()}
                        keep_ = ()
                        if mode == "assign" and len(st.targets) == 1 and isinstance(st.targets[0], ast.Name) and st.targets[0].id not in b and \
                                not any(isinstance(n_, ast.Name) and n_.id == st.targets[0].id for a_ in b.values() for n_ in ast.walk(a_)):
                            keep_ = (st.targets[0].id,)
                        prelude, mapping, body = ex._instantiate(h, b, fn, keep_)
                        if body and isinstance(body[0], ast.Expr) and isinstance(body[0].value, ast.Constant) and isinstance(body[0].value.value, str):
                            body = body[1:]
                        if mode == "stmt":
                            new = _eliminate_returns(body, lambda v: ([ast.Expr(value=v)] if v is not None and not isinstance(v, ast.Constant) else []))
                        elif mode == "assign" and len(st.targets) == 1 and isinstance(st.targets[0], ast.Name) and \
                                _single_returned_local(body) is not None and \
                                not any(isinstance(n_, ast.Name) and n_.id == st.targets[0].id for s_ in body for n_ in ast.walk(s_)):
                            # `t = helper()` where the helper builds a local and returns it: the local *is* t (no alias is created)
                            loc_ = _single_returned_local(body)
                            body3 = [_Rename({loc_: st.targets[0].id}).visit(s_) for s_ in body]
                            new = _eliminate_returns(body3, lambda v: [])
                        elif mode == "assign":
                            tg = st.targets
                            body2 = body if _always_returns(body) else body + [ast.Return(value=None)]
                            def _ret_assign(v, tg=tg):
                                if len(tg) == 1 and isinstance(tg[0], ast.Name) and isinstance(v, ast.Name) and v.id == tg[0].id:
                                    return []       # t = t
                                return [ast.Assign(targets=copy.deepcopy(tg), value=(v if v is not None else ast.Constant(None)), lineno=st.lineno)]
                            new = _eliminate_returns(body2, _ret_assign)
                        else:
                            body2 = body if _always_returns(body) else body + [ast.Return(value=None)]
                            new = _eliminate_returns(body2, lambda v: [ast.Return(value=v)])
                        for n_ in prelude + new:
                            ast.fix_missing_locations(ast.copy_location(n_, st) if not hasattr(n_, "lineno") else n_)
                        out.extend(prelude + (new or [ast.Pass()]))
                        changed = True
                        done = True
                        ex.report.append(f"{modname}: body of new helper `{h.name}` inlined into `{getattr(fn, 'name', '?')}`")
                if done:
                    continue
                # expression-level inlining inside this statement (not inside nested defs), then recurse into blocks
                if isinstance(st, (ast.FunctionDef, ast.AsyncFunctionDef, ast.ClassDef)):
                    out.append(st)
                    continue
                for fld, val in list(ast.iter_fields(st)):
                    if fld in ("body", "orelse", "finalbody", "handlers"):
                        continue
                    if isinstance(val, ast.AST):
                        setattr(st, fld, ExprInl().visit(val))
                    elif isinstance(val, list):
                        setattr(st, fld, [ExprInl().visit(v) if isinstance(v, ast.AST) else v for v in val])
                for fld in ("body", "orelse", "finalbody"):
                    if getattr(st, fld, None):
                        setattr(st, fld, block(getattr(st, fld)))
                for hd in getattr(st, "handlers", []) or []:
                    hd.body = block(hd.body)
                out.append(st)
            return out

        fn.body = block(fn.body)
        return changed

    def known_has_function(self, modname, fn) -> bool:
        return True

    def _drop_dead_helpers(self):
        """new top-level helpers (methods / module functions) that are no longer referenced anywhere in the package after
        inlining are removed: rules that enumerate all methods would otherwise judge their bodies out of context"""
        refs: Dict[str, int] = {}
        for mod in self.modules.values():
            for n in ast.walk(mod.tree):
                if isinstance(n, ast.Attribute):
                    refs[n.attr] = refs.get(n.attr, 0) + 1
                elif isinstance(n, ast.Name):
                    refs[n.id] = refs.get(n.id, 0) + 1
        for h in self.helpers.values():
            if h.encl is not None or isinstance(h.node, ast.Assign):
                continue
            if refs.get(h.name, 0) > 0 or h.name.startswith("__"):
                continue
            container = h.cls.body if h.cls is not None else self.modules[h.modname].tree.body
            for i_, s_ in enumerate(container):
                if s_ is h.node:
                    del container[i_]
                    self.report.append(f"{h.modname}: new helper `{h.name}` fully inlined and removed")
                    break

    def new_literal_loop(self, modname: str, fn, st: ast.For) -> bool:
        """a loop over a literal tuple is unrolled only if the reviewed version of the function had no such loop (the
        known-functions file records the number of literal-tuple loops per function)"""
        key = self._key_of.get(id(fn))
        if key is None:
            return False
        return self.known_lit.get(key, 0) == 0

    def run(self):
        self.leftover = []
        self._key_of = {}
        for modname, mod in self.modules.items():
            for key, node, cls, encl in function_keys(mod.tree, modname):
                self._key_of[id(node)] = key
        for _ in range(MAX_ROUNDS):
            any_change = False
            for h_ in self.helpers.values():
                h_.value = _pure_value(h_.node if isinstance(h_.node, ast.Assign) else h_.fn)
            for modname, mod in self.modules.items():
                for key, node, cls, encl in function_keys(mod.tree, modname):
                    if isinstance(node, ast.Assign):
                        continue
                    chain = [encl] if encl is not None else []
                    if self.inline_function(node, modname, cls, chain):
                        any_change = True
            if not any_change:
                break
        self._drop_dead_helpers()
        for mod in self.modules.values():
            ast.fix_missing_locations(mod.tree)
        # what could not be restored: reviewed functions that still call a new helper.  Rules cannot see through such a call;
        # a violation reported inside such a function (or inside the helper) is not trustworthy and is turned into an
        # analysis error by the report.
        self.leftover: List[Tuple[str, int, int, str]] = []
        for modname, mod in self.modules.items():
            rel = getattr(mod, "relpath", modname)
            for key, node, cls, encl in function_keys(mod.tree, modname):
                if isinstance(node, ast.Assign) or key not in self.known:
                    continue
                chain = ([encl] if encl is not None else []) + [node]
                names = set()
                for c in ast.walk(node):
                    if isinstance(c, ast.Call):
                        r = self.resolve(c, modname, cls, chain)
                        if r is not None and r[0].fn is not node:
                            names.add(r[0].name)
                            h = r[0]
                            self.leftover.append((rel, getattr(h.fn, "lineno", 0), getattr(h.fn, "end_lineno", 0) or 0, f"new helper `{h.name}` could not be inlined"))
                # local callables (nested def / lambda bound to a name) that the reviewed function did not have and that are
                # still called: e.g. a nested function that came in with an inlined helper, or one that cannot be inlined
                qual = key.split(":", 1)[1]
                local_new = set()
                for n_ in ast.walk(node):
                    if n_ is node:
                        continue
                    if isinstance(n_, (ast.FunctionDef, ast.AsyncFunctionDef)) and f"{modname}:{qual}.{n_.name}" not in self.known:
                        local_new.add(n_.name)
                    elif isinstance(n_, ast.Assign) and len(n_.targets) == 1 and isinstance(n_.targets[0], ast.Name) and isinstance(n_.value, ast.Lambda) and \
                            f"{modname}:{qual}.{n_.targets[0].id}" not in self.known:
                        local_new.add(n_.targets[0].id)
                for c in ast.walk(node):
                    if isinstance(c, ast.Call) and isinstance(c.func, ast.Name) and c.func.id in local_new:
                        names.add(c.func.id)
                if names:
                    self.leftover.append((rel, node.lineno, getattr(node, "end_lineno", node.lineno) or node.lineno,
                                          f"`{key.split(':')[1]}` still calls the new helper(s) {sorted(names)} that could not be inlined"))


def _count_uses(e: ast.AST, name: str) -> int:
    return sum(1 for n in ast.walk(e) if isinstance(n, ast.Name) and n.id == name)


# ------------------------------------------------------------------------------------------- renamed methods
def undo_private_renames(modules: Dict[str, "object"], known: Set[str]) -> List[str]:
    """A reviewed private method / function is gone and exactly one new one in the same scope has the same body
    (modulo its own name): rename it back, with all references in the package."""
    notes = []
    renames: Dict[str, str] = {}
    for modname, mod in modules.items():
        keys = function_keys(mod.tree, modname)
        cur = {k: n for k, n, c, e in keys if not isinstance(n, ast.Assign) and e is None}
        missing = [k for k in known if k.startswith(modname + ":") and k not in cur and k.count(".") <= 1 + modname.count(".")]
        new = [k for k in cur if k not in known]
        for mk in missing:
            scope = mk.rsplit(".", 1)[0] if "." in mk.split(":", 1)[1] else mk.split(":")[0] + ":"
            old_name = mk.split(":", 1)[1].split(".")[-1]
            if not old_name.startswith("_") or old_name.startswith("__"):
                continue
            cands = [k for k in new if (k.rsplit(".", 1)[0] if "." in k.split(":", 1)[1] else k.split(":")[0] + ":") == scope]
            cands = [k for k in cands if k.split(":", 1)[1].split(".")[-1].startswith("_") and
                     [a.arg for a in cur[k].args.posonlyargs + cur[k].args.args + cur[k].args.kwonlyargs] == known[mk]]
            if len(cands) == 1:
                new_name = cands[0].split(":", 1)[1].split(".")[-1]
                renames[new_name] = old_name
                notes.append(f"{modname}: private `{new_name}` treated as the renamed `{old_name}`")
    if renames:
        for mod in modules.values():
            for n in ast.walk(mod.tree):
                if isinstance(n, (ast.FunctionDef, ast.AsyncFunctionDef)) and n.name in renames:
                    n.name = renames[n.name]
                elif isinstance(n, ast.Attribute) and n.attr in renames:
                    n.attr = renames[n.attr]
                elif isinstance(n, ast.Name) and n.id in renames:
                    n.id = renames[n.id]
    return notes


def _names_in(e: ast.AST) -> Set[str]:
    out = set()
    for n in ast.walk(e):
        if isinstance(n, ast.Name):
            out.add(n.id)
        elif isinstance(n, ast.Attribute):
            d = []
            x = n
            while isinstance(x, ast.Attribute):
                d.append(x.attr)
                x = x.value
            if isinstance(x, ast.Name):
                out.add(".".join([x.id] + list(reversed(d))))
    return out


def _attr_chain(e: ast.AST) -> Optional[str]:
    parts = []
    while isinstance(e, ast.Attribute):
        parts.append(e.attr)
        e = e.value
    if isinstance(e, ast.Name) and e.id == "self" and parts:
        return ".".join(["self"] + list(reversed(parts)))
    return None


def eliminate_self_aliases(fn) -> int:
    """x = self.a.b  (x bound exactly once, never a parameter; self.a / self.a.b not re-bound after that line in the function)
    -> every later read of x is written self.a.b and the alias statement is dropped.  Covers local aliases of attributes and of
    bound methods (`add = self.solver.add_constraint`)."""
    if isinstance(fn, ast.Lambda):
        return 0
    params = {a.arg for a in ast.walk(fn.args) if isinstance(a, ast.arg)}
    stores: Dict[str, List[ast.AST]] = {}
    attr_stores: List[Tuple[str, int]] = []
    nested_uses = set()
    # position of every node in source order of the (possibly inlined) body: line numbers of inlined statements are those of the helper
    seq: Dict[int, int] = {}

    def number(stmts):
        for st_ in stmts:
            k_ = len(seq)
            for x_ in ast.walk(st_):
                seq.setdefault(id(x_), k_ if not isinstance(x_, ast.stmt) or x_ is st_ else seq.get(id(x_), k_))
            seq[id(st_)] = k_
            for fld_ in ("body", "orelse", "finalbody"):
                sub = getattr(st_, fld_, None)
                if isinstance(sub, list) and not isinstance(st_, (ast.FunctionDef, ast.AsyncFunctionDef, ast.ClassDef)):
                    renumber(sub)
            for h_ in getattr(st_, "handlers", []) or []:
                renumber(h_.body)

    counter = [0]

    def renumber(stmts):
        for st_ in stmts:
            counter[0] += 1
            k_ = counter[0]
            for x_ in ast.walk(st_):
                seq[id(x_)] = k_
            for fld_ in ("body", "orelse", "finalbody"):
                sub = getattr(st_, fld_, None)
                if isinstance(sub, list) and not isinstance(st_, (ast.FunctionDef, ast.AsyncFunctionDef, ast.ClassDef)):
                    renumber(sub)
            for h_ in getattr(st_, "handlers", []) or []:
                renumber(h_.body)
    renumber(fn.body)
    in_loop: Set[int] = set()
    for lp_ in ast.walk(fn):
        if isinstance(lp_, (ast.For, ast.While)):
            for x_ in ast.walk(lp_):
                in_loop.add(id(x_))
    for n in ast.walk(fn):
        if isinstance(n, ast.Name) and isinstance(n.ctx, (ast.Store, ast.Del)):
            stores.setdefault(n.id, []).append(n)
        elif isinstance(n, ast.Attribute) and isinstance(n.ctx, (ast.Store, ast.Del)):
            c = _attr_chain(n)
            if c:
                attr_stores.append((c, seq.get(id(n), 0)))
        elif isinstance(n, (ast.FunctionDef, ast.AsyncFunctionDef, ast.Lambda)) and n is not fn:
            for x in ast.walk(n):
                if isinstance(x, ast.Name):
                    nested_uses.add(x.id)
        elif isinstance(n, (ast.Global, ast.Nonlocal)):
            return 0
    cands: Dict[str, Tuple[ast.Assign, ast.AST]] = {}

    def scan(stmts):
        for st in stmts:
            if isinstance(st, ast.Assign) and len(st.targets) == 1 and isinstance(st.targets[0], ast.Name) and _attr_chain(st.value):
                nm = st.targets[0].id
                chain = _attr_chain(st.value)
                here = seq.get(id(st), 0)
                # a store to the attribute that comes later in source order kills the alias; inside a loop an *earlier* store of the same
                # iteration does not (the alias is re-made after it in every iteration) as long as it precedes the alias statement
                if nm not in params and len(stores.get(nm, [])) == 1 and nm not in nested_uses and \
                        not any((c == chain or chain.startswith(c + ".")) and ln > here for c, ln in attr_stores):
                    cands[nm] = (st, st.value)
            for fld in ("body", "orelse", "finalbody"):
                if isinstance(getattr(st, fld, None), list) and not isinstance(st, (ast.FunctionDef, ast.AsyncFunctionDef, ast.ClassDef)):
                    scan(getattr(st, fld))
            for h in getattr(st, "handlers", []) or []:
                scan(h.body)
    scan(fn.body)
    if not cands:
        return 0

    class R(ast.NodeTransformer):
        def visit_Name(self, node):
            if isinstance(node.ctx, ast.Load) and node.id in cands:
                return copy.deepcopy(cands[node.id][1])
            return node

        def visit_FunctionDef(self, node):
            return node
        visit_Lambda = visit_FunctionDef
        visit_AsyncFunctionDef = visit_FunctionDef

    drop = {id(st) for st, v in cands.values()}

    def rewrite(stmts):
        out = []
        for st in stmts:
            if id(st) in drop:
                continue
            if isinstance(st, (ast.FunctionDef, ast.AsyncFunctionDef, ast.ClassDef)):
                out.append(st)
                continue
            for fld, val in list(ast.iter_fields(st)):
                if fld in ("body", "orelse", "finalbody", "handlers"):
                    continue
                if isinstance(val, ast.AST):
                    setattr(st, fld, R().visit(val))
                elif isinstance(val, list):
                    setattr(st, fld, [R().visit(v) if isinstance(v, ast.AST) else v for v in val])
            for fld in ("body", "orelse", "finalbody"):
                if isinstance(getattr(st, fld, None), list):
                    new = rewrite(getattr(st, fld))
                    setattr(st, fld, new or ([ast.Pass()] if fld == "body" else []))
            for h in getattr(st, "handlers", []) or []:
                h.body = rewrite(h.body) or [ast.Pass()]
            out.append(st)
        return out
    fn.body = rewrite(fn.body) or [ast.Pass()]
    return len(cands)


def quantifiers_to_loops(stmts: List[ast.stmt]) -> List[ast.stmt]:
    """if [A and] any(c for x in X): <body ending in return / raise>   ->   [if A:] for x in X: if c: <body>
    (and `not all(c ...)` with the negated element): the quantifier and the explicit search loop are the same code.  Applied by
    rules that recognise the loop form (on a copy of the function body), not globally - other rules read the quantifier as one test."""
    stmts = list(stmts)
    i = 0
    while i < len(stmts):
        st = stmts[i]
        # if [A and] any(c for x in X): <body ending in return / raise>   ->   [if A:] for x in X: if c: <body>
        # (and `not all(c ...)` with the negated element): the quantifier and the explicit search loop are the same code
        if isinstance(st, ast.If) and not st.orelse and st.body and isinstance(st.body[-1], (ast.Return, ast.Raise)):
            conj = st.test.values if isinstance(st.test, ast.BoolOp) and isinstance(st.test.op, ast.And) else [st.test]
            last = conj[-1]
            neg = False
            while isinstance(last, ast.UnaryOp) and isinstance(last.op, ast.Not):
                last, neg = last.operand, not neg
            if isinstance(last, ast.Call) and isinstance(last.func, ast.Name) and last.func.id in ("any", "all") and len(last.args) == 1 and not last.keywords and \
                    isinstance(last.args[0], (ast.GeneratorExp, ast.ListComp)) and ((last.func.id == "any") != neg) and \
                    not any(isinstance(n_, (ast.Break, ast.Continue)) for s_ in st.body for n_ in _walk_stmts(s_)):
                gen = last.args[0]
                elt = gen.elt if last.func.id == "any" else ast.UnaryOp(op=ast.Not(), operand=gen.elt)
                inner: List[ast.stmt] = [ast.If(test=elt, body=st.body, orelse=[])]
                for g_ in reversed(gen.generators):
                    for c_ in reversed(g_.ifs):
                        inner = [ast.If(test=c_, body=inner, orelse=[])]
                    inner = [ast.For(target=g_.target, iter=g_.iter, body=inner, orelse=[], lineno=st.lineno)]
                for a_ in reversed(conj[:-1]):
                    inner = [ast.If(test=a_, body=inner, orelse=[])]
                for n_ in inner:
                    ast.copy_location(n_, st)
                    ast.fix_missing_locations(n_)
                stmts[i:i + 1] = inner
                continue
        for fld in ("body", "orelse", "finalbody"):
            if isinstance(getattr(st, fld, None), list) and not isinstance(st, (ast.FunctionDef, ast.AsyncFunctionDef, ast.ClassDef)):
                setattr(st, fld, quantifiers_to_loops(getattr(st, fld)))
        i += 1
    return stmts


def structure_statements(stmts: List[ast.stmt]) -> List[ast.stmt]:
    """Statement-level canonical structure (semantics preserving):
       flag = <boolean expression>;  x = A if flag else B      ->   the test is written where it is used, when nothing in
                                                                    between can change its operands
       x = A if c else B                                       ->   if c: x = A   else: x = B
       return A if c else B                                    ->   if c: return A   else: return B"""
    out: List[ast.stmt] = []
    stmts = list(stmts)
    i = 0
    while i < len(stmts):
        st = stmts[i]
        # boolean local used once, in the test of the next statement's conditional expression / if
        if isinstance(st, ast.Assign) and len(st.targets) == 1 and isinstance(st.targets[0], ast.Name) and \
                isinstance(st.value, (ast.BoolOp, ast.Compare, ast.UnaryOp)) and i + 1 < len(stmts):
            nm = st.targets[0].id
            nxt = stmts[i + 1]
            test = None
            if isinstance(nxt, ast.If):
                test = nxt.test
            elif isinstance(nxt, (ast.Assign, ast.Return)) and isinstance(nxt.value, ast.IfExp):
                test = nxt.value.test
            uses_next = sum(1 for n in ast.walk(test) if isinstance(n, ast.Name) and n.id == nm) if test is not None else 0
            uses_later = sum(1 for s_ in stmts[i + 1:] for n in ast.walk(s_) if isinstance(n, ast.Name) and n.id == nm)
            if uses_next == 1 and uses_later == 1:
                class R(ast.NodeTransformer):
                    def visit_Name(self, node):
                        return copy.deepcopy(st.value) if node.id == nm and isinstance(node.ctx, ast.Load) else node
                if isinstance(nxt, ast.If):
                    nxt.test = R().visit(nxt.test)
                else:
                    nxt.value.test = R().visit(nxt.value.test)
                i += 1
                continue
        # a, b = (x, y)  ->  a = x; b = y   (no element of the right side reads a name bound on the left)
        if isinstance(st, ast.Assign) and len(st.targets) == 1 and isinstance(st.targets[0], (ast.Tuple, ast.List)) and isinstance(st.value, (ast.Tuple, ast.List)) and \
                len(st.targets[0].elts) == len(st.value.elts) and not any(isinstance(x, ast.Starred) for x in st.targets[0].elts + st.value.elts):
            bound = set()
            for t_ in st.targets[0].elts:
                bound |= _names_in(t_)
            reads = set()
            for v_ in st.value.elts:
                reads |= _names_in(v_)
            if not (bound & reads) and len(st.value.elts) >= 2:
                parts = []
                for t_, v_ in zip(st.targets[0].elts, st.value.elts):
                    a_ = ast.Assign(targets=[t_], value=v_, lineno=st.lineno)
                    ast.copy_location(a_, st)
                    parts.append(a_)
                stmts[i:i + 1] = parts
                continue
        # if <constant>: keep the live branch (after a helper was inlined with a constant flag argument)
        if isinstance(st, ast.If) and isinstance(st.test, ast.Constant) and isinstance(st.test.value, (bool, int)):
            live = st.body if st.test.value else st.orelse
            stmts[i:i + 1] = live
            continue
        if isinstance(st, (ast.Assign, ast.Return, ast.Expr)) and st.value is not None:
            class _CF(ast.NodeTransformer):
                def visit_IfExp(self, node):
                    node = self.generic_visit(node)
                    if isinstance(node.test, ast.Constant) and isinstance(node.test.value, (bool, int)):
                        return node.body if node.test.value else node.orelse
                    return node
            st.value = _CF().visit(st.value)
        if isinstance(st, ast.Assign) and isinstance(st.value, ast.IfExp):
            v = st.value
            a = ast.Assign(targets=copy.deepcopy(st.targets), value=v.body, lineno=st.lineno)
            b = ast.Assign(targets=copy.deepcopy(st.targets), value=v.orelse, lineno=st.lineno)
            new = ast.If(test=v.test, body=structure_statements([a]), orelse=structure_statements([b]))
            ast.copy_location(new, st)
            ast.fix_missing_locations(new)
            out.append(new)
            i += 1
            continue
        if isinstance(st, ast.Return) and isinstance(st.value, ast.IfExp):
            v = st.value
            new = ast.If(test=v.test, body=structure_statements([ast.Return(value=v.body)]), orelse=structure_statements([ast.Return(value=v.orelse)]))
            ast.copy_location(new, st)
            ast.fix_missing_locations(new)
            out.append(new)
            i += 1
            continue
        for fld in ("body", "orelse", "finalbody"):
            if isinstance(getattr(st, fld, None), list) and not isinstance(st, (ast.FunctionDef, ast.AsyncFunctionDef, ast.ClassDef)):
                setattr(st, fld, structure_statements(getattr(st, fld)))
        for h in getattr(st, "handlers", []) or []:
            h.body = structure_statements(h.body)
        out.append(st)
        i += 1
    return out


LEFTOVER: List[Tuple[str, int, int, str]] = []


def normalise(modules: Dict[str, "object"]) -> List[str]:
    global LEFTOVER
    LEFTOVER = []
    known = load_known()
    if known is None:
        return []
    notes = undo_private_renames(modules, known)
    inl = Inliner(modules, known, dict(json.load(open(KNOWN)).get("literal_loops", {})))
    inl.run()
    if not os.environ.get("VERIF_NO_STRUCTURE"):
        n_alias = 0
        for modname, mod in modules.items():
            for key, node, cls, encl in function_keys(mod.tree, modname):
                if not isinstance(node, ast.Assign):
                    if cls is not None and encl is None:
                        n_alias += eliminate_self_aliases(node)
                    node.body = structure_statements(node.body)
        if n_alias:
            notes.append(f"{n_alias} local alias(es) of self attributes / bound methods written out")
            ast.fix_missing_locations(mod.tree)
    LEFTOVER = sorted(set(getattr(inl, "leftover", [])))
    # reviewed functions that no longer exist (after undoing renames): the code they held now lives elsewhere in their class /
    # module, in a shape no rule was written for
    present = set()
    for modname, mod in modules.items():
        for key, node, cls, encl in function_keys(mod.tree, modname):
            present.add(key)
    for key in sorted(known):
        if key in present:
            continue
        modname, qual = key.split(":", 1)
        mod = modules.get(modname)
        if mod is None:
            continue
        parts = qual.split(".")
        rel = getattr(mod, "relpath", modname)
        if len(parts) >= 2:
            for st in mod.tree.body:
                if isinstance(st, ast.ClassDef) and st.name == parts[0]:
                    LEFTOVER.append((rel, st.lineno, getattr(st, "end_lineno", st.lineno) or st.lineno, f"the reviewed function `{qual}` no longer exists (its code was moved or merged)"))
        else:
            LEFTOVER.append((rel, 1, 10 ** 7, f"the reviewed function `{qual}` no longer exists (its code was moved or merged)"))
    return notes + sorted(set(inl.report)) + [f"NOT RESTORED {rel}:{a}-{b}: {why}" for rel, a, b, why in LEFTOVER]
