"""Propositional normal forms of Python tests over canonical atoms.

A test (the condition of an `if`, of a comprehension filter, of a conditional expression) is parsed into a formula over
*atoms*; two tests are compared by truth table, not by text, so that De Morgan rewrites, `if a: continue` vs nested `if not a`,
merged / split early exits, `x not in s` vs `not (x in s)`, `a >= b` vs `not (a < b)`, `a > b` vs `b < a`, `len(x) == 0` vs
`not x`, `not all(p ...)` vs `any(not p ...)` and conditional expressions all coincide.

Formula representation (tuples, hashable):
    ("T",) ("F",) ("a", atom_text) ("not", f) ("and", (f, ...)) ("or", (f, ...))
"""
from __future__ import annotations

import ast
import re
import itertools
from typing import Dict, Iterable, List, Optional, Sequence, Set, Tuple

from .pm import norm
from .poly import Poly, to_poly

BF = tuple
T: BF = ("T",)
F: BF = ("F",)
MAX_ATOMS = 14


def mk_not(f: BF) -> BF:
    if f == T:
        return F
    if f == F:
        return T
    if f[0] == "not":
        return f[1]
    return ("not", f)


def mk_and(fs: Iterable[BF]) -> BF:
    out: List[BF] = []
    for f in fs:
        if f == T:
            continue
        if f == F:
            return F
        if f[0] == "and":
            out.extend(f[1])
        else:
            out.append(f)
    uniq = sorted(set(out), key=repr)
    if not uniq:
        return T
    if len(uniq) == 1:
        return uniq[0]
    return ("and", tuple(uniq))


def mk_or(fs: Iterable[BF]) -> BF:
    out: List[BF] = []
    for f in fs:
        if f == F:
            continue
        if f == T:
            return T
        if f[0] == "or":
            out.extend(f[1])
        else:
            out.append(f)
    uniq = sorted(set(out), key=repr)
    if not uniq:
        return F
    if len(uniq) == 1:
        return uniq[0]
    return ("or", tuple(uniq))


def atom(text: str) -> BF:
    return ("a", text)


# ------------------------------------------------------------------------------------------------ parsing
def _strlike(e: ast.AST) -> bool:
    return any(isinstance(n, (ast.Constant,)) and isinstance(n.value, (str, bytes)) or isinstance(n, (ast.Tuple, ast.List, ast.Set, ast.Dict, ast.JoinedStr))
               for n in ast.walk(e)) or (isinstance(e, ast.Constant) and e.value is None)


def _cmp_atom(op: ast.cmpop, a: ast.AST, b: ast.AST) -> BF:
    """canonical formula for `a <op> b`"""
    if isinstance(op, ast.NotEq):
        return mk_not(_cmp_atom(ast.Eq(), a, b))
    if isinstance(op, ast.NotIn):
        return mk_not(_cmp_atom(ast.In(), a, b))
    if isinstance(op, ast.IsNot):
        return mk_not(_cmp_atom(ast.Is(), a, b))
    if isinstance(op, ast.Gt):
        return _cmp_atom(ast.Lt(), b, a)
    if isinstance(op, ast.GtE):
        return mk_not(_cmp_atom(ast.Lt(), a, b))
    if isinstance(op, ast.LtE):
        return mk_not(_cmp_atom(ast.Lt(), b, a))
    if isinstance(op, ast.In):
        if isinstance(b, ast.IfExp):
            c = parse(b.test)
            return mk_or([mk_and([c, _cmp_atom(ast.In(), a, b.body)]), mk_and([mk_not(c), _cmp_atom(ast.In(), a, b.orelse)])])
        if (isinstance(b, (ast.List, ast.Tuple, ast.Set)) and not b.elts) or (isinstance(b, ast.Dict) and not b.keys) or \
                (isinstance(b, ast.Call) and isinstance(b.func, ast.Name) and b.func.id in ("set", "list", "tuple", "dict", "frozenset") and not b.args and not b.keywords):
            return F        # nothing is a member of an empty container
        if isinstance(b, (ast.List, ast.Tuple, ast.Set)) and b.elts and all(isinstance(x, (ast.Name, ast.Attribute, ast.Constant)) for x in b.elts):
            # membership in a literal container does not depend on its kind or order: it is the disjunction of the equalities
            return mk_or([_cmp_atom(ast.Eq(), a, x) for x in b.elts])
        # (u, v) in G.edges / G.edges() / set(G.edges())  is  G.has_edge(u, v)   (DiGraph: the edge view's membership test is has_edge)
        if isinstance(a, ast.Tuple) and len(a.elts) == 2:
            e = b
            if isinstance(e, ast.Call) and isinstance(e.func, ast.Name) and e.func.id in ("set", "frozenset", "list", "tuple") and len(e.args) == 1 and not e.keywords:
                e = e.args[0]
            if isinstance(e, ast.Call) and not e.args and not e.keywords:
                e = e.func
            if isinstance(e, ast.Attribute) and e.attr == "edges" and isinstance(e.value, (ast.Name, ast.Attribute)):
                return atom(_expr_text(ast.Call(func=ast.Attribute(value=e.value, attr="has_edge", ctx=ast.Load()), args=list(a.elts), keywords=[])))
        return atom(f"{_expr_text(a)} in {_expr_text(b)}")
    if isinstance(op, ast.Is):
        x, y = _expr_text(a), _expr_text(b)
        if x == "None":
            x, y = y, x
        return atom(f"{x} is {y}")
    # emptiness idioms:  len(X) == 0, len(X) < 1, len(X) > 0, len(X) >= 1, len(X) != 0  ->  (not) TRUTHY(X)
    def len_arg(e):
        if isinstance(e, ast.Call) and isinstance(e.func, ast.Name) and e.func.id == "len" and len(e.args) == 1 and not e.keywords:
            return e.args[0]
        return None

    def const(e):
        return e.value if isinstance(e, ast.Constant) and isinstance(e.value, int) and not isinstance(e.value, bool) else None
    if isinstance(op, ast.Eq):
        for x, y in ((a, b), (b, a)):
            if len_arg(x) is not None and const(y) == 0:
                return mk_not(truthy(len_arg(x)))
        if isinstance(b, ast.Constant) and b.value is None:
            return atom(f"{_expr_text(a)} is None")
        if isinstance(a, ast.Constant) and a.value is None:
            return atom(f"{_expr_text(b)} is None")
        if isinstance(b, ast.Constant) and isinstance(b.value, bool) or isinstance(a, ast.Constant) and isinstance(a.value, bool):
            x, c = (a, b.value) if isinstance(b, ast.Constant) else (b, a.value)
            return atom(f"{_expr_text(x)} == {c}")
        if _strlike(a) or _strlike(b):
            x, y = sorted([_expr_text(a), _expr_text(b)])
            return atom(f"{x} == {y}")
        p = to_poly(a, _atom_of) - to_poly(b, _atom_of)
        p = _sign_norm(p)[0]
        if p.is_zero():
            return T
        if p.const_value() is not None:
            return F
        return atom(f"EQ0[{p!r}]")
    if isinstance(op, ast.Lt):
        # len(X) < 1  /  0 < len(X)
        if len_arg(a) is not None and const(b) == 1:
            return mk_not(truthy(len_arg(a)))
        if len_arg(b) is not None and const(a) == 0:
            return truthy(len_arg(b))
        if len_arg(a) is not None and const(b) == 0:
            return F
        if _strlike(a) or _strlike(b):
            return atom(f"{_expr_text(a)} < {_expr_text(b)}")
        p = to_poly(a, _atom_of) - to_poly(b, _atom_of)          # a < b  <=>  p < 0
        cv = p.const_value()
        if cv is not None:
            return T if cv < 0 else F
        q, flipped = _sign_norm(p)
        if not flipped:
            return atom(f"LT0[{q!r}]")
        return mk_not(atom(f"LE0[{q!r}]"))                       # -q < 0 <=> q > 0 <=> not (q <= 0)
    return atom(f"{_expr_text(a)} {type(op).__name__} {_expr_text(b)}")


def _sign_norm(p: Poly) -> Tuple[Poly, bool]:
    """make the coefficient of the first (sorted) non-constant monomial positive"""
    ms = sorted(m for m in p.t if m != ())
    if not ms:
        return p, False
    if p.t[ms[0]] < 0:
        return -p, True
    return p, False


def _atom_of(node: ast.AST) -> Optional[str]:
    # canonical names of opaque sub-expressions inside polynomials
    if isinstance(node, (ast.BinOp, ast.UnaryOp, ast.Constant)):
        return None
    return _expr_text(node)


_EXPR_HOOK = None


def set_expr_canon(fn):
    """install a canonicaliser for expression texts (e.g. alpha-renaming of comprehension variables)"""
    global _EXPR_HOOK
    _EXPR_HOOK = fn


def _expr_text(e: ast.AST) -> str:
    if isinstance(e, ast.Call) and isinstance(e.func, ast.Name) and e.func.id in ("bool",) and len(e.args) == 1:
        return _expr_text(e.args[0])
    if isinstance(e, ast.Call) and isinstance(e.func, ast.Name) and e.func.id in ("set", "list", "tuple", "frozenset") and len(e.args) == 1 and \
            isinstance(e.args[0], (ast.Name, ast.Attribute)):
        # membership / emptiness of list(x), set(x) equals that of x
        pass
    t = norm(e)
    # `x.strip().startswith('#')` is `x.lstrip().startswith('#')` (the prefix does not begin with white space): one spelling
    t = re.sub(r"\.strip\(\)\.startswith\((?=['\"][^\s'\"])", ".lstrip().startswith(", t)
    return _EXPR_HOOK(t) if _EXPR_HOOK else t


def truthy(e: ast.AST) -> BF:
    """formula of `bool(e)`"""
    return parse(e)


def parse(e: ast.AST) -> BF:
    if isinstance(e, ast.Constant):
        if e.value is True:
            return T
        if e.value is False or e.value is None:
            return F
        if isinstance(e.value, (int, float, str)):
            return T if e.value else F
    if isinstance(e, ast.UnaryOp) and isinstance(e.op, ast.Not):
        return mk_not(parse(e.operand))
    if isinstance(e, ast.BoolOp):
        parts = [parse(v) for v in e.values]
        return mk_and(parts) if isinstance(e.op, ast.And) else mk_or(parts)
    if isinstance(e, ast.Compare):
        parts = []
        left = e.left
        for op, right in zip(e.ops, e.comparators):
            parts.append(_cmp_atom(op, left, right))
            left = right
        return mk_and(parts)
    if isinstance(e, ast.IfExp):
        c = parse(e.test)
        return mk_or([mk_and([c, parse(e.body)]), mk_and([mk_not(c), parse(e.orelse)])])
    if isinstance(e, ast.Call) and isinstance(e.func, ast.Name) and e.func.id in ("all", "any") and len(e.args) == 1 and \
            isinstance(e.args[0], (ast.GeneratorExp, ast.ListComp)) and not e.keywords:
        g = e.args[0]
        # quantification over a short literal tuple / list is a plain conjunction / disjunction
        if len(g.generators) == 1 and not g.generators[0].ifs and isinstance(g.generators[0].iter, (ast.Tuple, ast.List)) and \
                len(g.generators[0].iter.elts) <= 6 and isinstance(g.generators[0].target, ast.Name):
            nm = g.generators[0].target.id

            class _S(ast.NodeTransformer):
                def __init__(self, v):
                    self.v = v

                def visit_Name(self, node):
                    import copy as _c
                    return _c.deepcopy(self.v) if node.id == nm and isinstance(node.ctx, ast.Load) else node
            import copy as _copy
            parts = [parse(_S(el).visit(_copy.deepcopy(g.elt))) for el in g.generators[0].iter.elts]
            return mk_and(parts) if e.func.id == "all" else mk_or(parts)
        inner = parse(g.elt)
        dom = "; ".join(f"{norm(c.target)} in {_expr_text(c.iter)}" + ("".join(f" if {key(parse(i))}" for i in c.ifs)) for c in g.generators)
        if e.func.id == "all":
            return atom(f"ALL[{dom}]({key(inner)})")
        return mk_not(atom(f"ALL[{dom}]({key(mk_not(inner))})"))
    if isinstance(e, ast.Call) and isinstance(e.func, ast.Name) and e.func.id == "bool" and len(e.args) == 1:
        return parse(e.args[0])
    if isinstance(e, ast.Call) and isinstance(e.func, ast.Name) and e.func.id == "len" and len(e.args) == 1:
        return parse(e.args[0])          # bool(len(x)) == bool(x) for sized containers
    return atom(_expr_text(e))


def parse_pol(e: ast.AST, pol: bool) -> BF:
    f = parse(e)
    return f if pol else mk_not(f)


# ------------------------------------------------------------------------------------------------ semantics
def atoms_of(f: BF, acc: Optional[Set[str]] = None) -> Set[str]:
    acc = set() if acc is None else acc
    if f[0] == "a":
        acc.add(f[1])
    elif f[0] == "not":
        atoms_of(f[1], acc)
    elif f[0] in ("and", "or"):
        for g in f[1]:
            atoms_of(g, acc)
    return acc


def evaluate(f: BF, env: Dict[str, bool]) -> bool:
    k = f[0]
    if k == "T":
        return True
    if k == "F":
        return False
    if k == "a":
        return env[f[1]]
    if k == "not":
        return not evaluate(f[1], env)
    if k == "and":
        return all(evaluate(g, env) for g in f[1])
    return any(evaluate(g, env) for g in f[1])


def _table(f: BF, names: Sequence[str]) -> Tuple[bool, ...]:
    return tuple(evaluate(f, dict(zip(names, vals))) for vals in itertools.product((False, True), repeat=len(names)))


def relevant_atoms(f: BF) -> List[str]:
    names = sorted(atoms_of(f))
    if len(names) > MAX_ATOMS:
        return names
    tab = _table(f, names)
    rel = []
    n = len(names)
    for i, a in enumerate(names):
        bit = 1 << (n - 1 - i)
        if any(tab[j] != tab[j ^ bit] for j in range(len(tab))):
            rel.append(a)
    return rel


def key(f: BF) -> str:
    """canonical text: equal for equivalent formulas (truth table over the relevant atoms)"""
    names = sorted(atoms_of(f))
    if len(names) > MAX_ATOMS:
        return "BIG:" + repr(f)
    rel = relevant_atoms(f)
    irrelevant = {a: False for a in names if a not in rel}
    tab = tuple(evaluate(f, {**irrelevant, **dict(zip(rel, vals))}) for vals in itertools.product((False, True), repeat=len(rel)))
    if not rel:
        return "TRUE" if tab[0] else "FALSE"
    return describe_table(rel, tab)


def describe_table(rel: Sequence[str], tab: Sequence[bool]) -> str:
    """readable canonical DNF: one conjunction per satisfying row is too long; use prime-implicant-free compact form:
    a single literal / conjunction / disjunction when the table has that shape, else rows."""
    n = len(rel)
    rows = [vals for vals, v in zip(itertools.product((False, True), repeat=n), tab) if v]
    lits = lambda vals: [(a if b else f"not ({a})") for a, b in zip(rel, vals)]
    if len(rows) == 1:
        return " & ".join(lits(rows[0]))
    if len(rows) == len(tab) - 1:
        # one falsifying row: disjunction of the negated literals
        bad = [vals for vals, v in zip(itertools.product((False, True), repeat=n), tab) if not v][0]
        return " | ".join((f"not ({a})" if b else a) for a, b in zip(rel, bad))
    return " | ".join("(" + " & ".join(lits(r)) + ")" for r in rows)


def equivalent(f: BF, g: BF) -> bool:
    names = sorted(atoms_of(f) | atoms_of(g))
    if len(names) > MAX_ATOMS:
        return repr(f) == repr(g)
    return _table(f, names) == _table(g, names)


def implies(f: BF, g: BF) -> bool:
    names = sorted(atoms_of(f) | atoms_of(g))
    if len(names) > MAX_ATOMS:
        return repr(f) == repr(g)
    return all((not a) or b for a, b in zip(_table(f, names), _table(g, names)))


def witness(f: BF, g: BF) -> Optional[Dict[str, bool]]:
    """an assignment on which f and g differ"""
    names = sorted(atoms_of(f) | atoms_of(g))
    if len(names) > MAX_ATOMS:
        return None
    for vals in itertools.product((False, True), repeat=len(names)):
        env = dict(zip(names, vals))
        if evaluate(f, env) != evaluate(g, env):
            return env
    return None


def satisfiable(f: BF) -> bool:
    names = sorted(atoms_of(f))
    if len(names) > MAX_ATOMS:
        return True
    return any(_table(f, names))
