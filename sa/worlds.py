"""Path-sensitive small-domain dataflow ("worlds") for solver-verdict / typestate rules.

A state is a bounded set of *worlds*.  A world maps tracked keys to the finite set of
abstract values still possible for them:

  * model verdict keys  ("fd_model", "self", "self._given_weights_model", ...):
        subsets of {opt, inf, other}  - the status classes of the model's latest solver run
  * constant keys (local names / self attributes assigned literals):
        sets of literal tokens, e.g. {"'solved'"} , {"None"}, {"True","False"}
  * none-ness keys ("self.external_solution_paths"): {None, notNone}

Joins keep worlds apart (union of sets) up to MAX_WORLDS, then merge per key - so the
correlation "solve_status == 'solved'  <=>  model proven optimal" survives to the place
where it matters.  Branch tests refine or drop worlds.

Status tokens are classified through the EXT table: "kOptimal"/2 -> opt, "kInfeasible"/3 -> inf,
anything else -> other.
"""
from __future__ import annotations

import ast
import re
from typing import Dict, FrozenSet, Optional, Tuple

from .flow import Flow
from .pm import Program, ModuleInfo, ClassInfo, dotted, norm

OPT, INF, OTHER = "opt", "inf", "other"
TOP3 = frozenset([OPT, INF, OTHER])
NONE, NOTNONE = "None", "notNone"
TRUTHY, FALSY = "<truthy>", "<falsy>"
FALSY_TOKENS = {"None", "False", "0", "''", "[]", "{}", "0.0", FALSY}

OPTIMAL_CONSTANTS = {"'kOptimal'", "2"}      # EXT: the only "proven optimal" codes (HiGHS name / Gurobi code)
INFEASIBLE_CONSTANTS = {"'kInfeasible'", "3"}

MAX_WORLDS = 48


def classify_status_token(tok: str) -> str:
    if tok in OPTIMAL_CONSTANTS:
        return OPT
    if tok in INFEASIBLE_CONSTANTS:
        return INF
    return OTHER


class World:
    __slots__ = ("d", "_h")

    def __init__(self, d: Dict[str, FrozenSet[str]]):
        self.d = d
        self._h = None

    def get(self, k):
        return self.d.get(k)

    def set(self, k, v) -> "World":
        nd = dict(self.d)
        if v is None:
            nd.pop(k, None)
        else:
            nd[k] = frozenset(v)
        return World(nd)

    def kill_prefix(self, name: str) -> "World":
        pat = re.compile(r"(?<![\w.])" + re.escape(name) + r"(?![\w])")
        nd = {}
        for k, v in self.d.items():
            if k == name or k.startswith(name + ".") or k.startswith(name + "["):
                continue
            if k.startswith("N:") and (k[2:] == name or k[2:].startswith(name + ".") or k[2:].startswith(name + "[")):
                continue
            if k.startswith("?") and pat.search(re.sub(r"'[^']*'|\"[^\"]*\"", "''", k)):
                # the test was decided on the old value: keep it as a control-dependence fact ("passed through")
                if not k.startswith("?was:"):
                    nd["?was:" + k[1:]] = v
                else:
                    nd[k] = v
                continue
            nd[k] = v
        return World(nd)

    def __eq__(self, o):
        return isinstance(o, World) and self.d == o.d

    def __hash__(self):
        if self._h is None:
            self._h = hash(frozenset(self.d.items()))
        return self._h

    def __repr__(self):
        return "{" + ", ".join(f"{k}:{'|'.join(sorted(v))}" for k, v in sorted(self.d.items())) + "}"


def merge_worlds(ws) -> World:
    ws = list(ws)
    keys = set(ws[0].d)
    for w in ws[1:]:
        keys &= set(w.d)
    return World({k: frozenset().union(*[w.d[k] for w in ws]) for k in keys})


def _importance(k: str, vals) -> int:
    if any(v in (OPT, INF, OTHER) for v in vals):
        return 3                      # solver verdict classes: what the rules are about
    if any(isinstance(v, str) and v[:1] in ("'", '"') for v in vals):
        return 2                      # string constants (status names)
    if k.startswith("?"):
        return 0                      # control-dependence facts
    return 1


def reduce_worlds(ws):
    """Too many worlds: forget the least important distinguishing key (control-dependence facts first, then truthiness /
    none-ness, then constants; verdict classes last) until few enough remain - instead of collapsing everything into one
    world, which would destroy the correlation between a status value and the verdict it was derived from."""
    ws = set(ws)
    guard = 0
    while len(ws) > MAX_WORLDS and guard < 200:
        guard += 1
        vals: Dict[str, set] = {}
        for w in ws:
            for k, v in w.d.items():
                vals.setdefault(k, set()).add(v)
        cands = []
        for k, vs in vals.items():
            distinct = len(vs) + (1 if any(k not in w.d for w in ws) else 0)
            if distinct < 2:
                continue
            imp = min(_importance(k, v) for v in vs)
            cands.append((imp, -distinct, k))
        if not cands:
            break
        cands.sort()
        imp, _, key = cands[0]
        if imp >= 3:
            break
        ws = {World({k: v for k, v in w.d.items() if k != key}) for w in ws}
    if len(ws) > MAX_WORLDS:
        return frozenset([merge_worlds(ws)])
    return frozenset(ws)


class WorldFlow(Flow):
    """Generic engine; rule modules subclass and add observation hooks."""

    def __init__(self, prog: Program, mod: ModuleInfo, cls: Optional[ClassInfo]):
        self.prog = prog
        self.mod = mod
        self.cls = cls
        self.status_alias: Dict[str, str] = {}   # local name holding a status string -> model key
        self.solve_keys = set()                  # model keys that received solve()/optimize()

    # ----------------------------------------------------------- lattice
    def initial(self, func):
        return frozenset([World({})])

    def join(self, a, b):
        u = a | b
        if len(u) > MAX_WORLDS:
            return reduce_worlds(u)
        return u

    # ------------------------------------------------------- expressions
    def const_token(self, node: ast.AST) -> Optional[str]:
        """Literal token of a constant expression, resolving Class.attr / module constants."""
        if isinstance(node, ast.Constant):
            return repr(node.value)
        if isinstance(node, ast.UnaryOp) and isinstance(node.op, ast.USub) and isinstance(node.operand, ast.Constant):
            return repr(-node.operand.value)
        d = dotted(node)
        if d is None:
            return None
        parts = d.split(".")
        if len(parts) == 1 and getattr(self, "f", None) is not None:
            # a local bound exactly once, to a class / module constant (`solved = Cls.solved_status_name`): the constant's token
            if not hasattr(self, "_local_const_alias"):
                self._local_const_alias = {}
                counts = {}
                for st in ast.walk(self.f.node):
                    if isinstance(st, (ast.Assign, ast.AugAssign, ast.AnnAssign, ast.For, ast.comprehension)):
                        tg = st.targets if isinstance(st, ast.Assign) else [st.target]
                        for t_ in tg:
                            for x_ in ast.walk(t_):
                                if isinstance(x_, ast.Name):
                                    counts[x_.id] = counts.get(x_.id, 0) + 1
                for st in ast.walk(self.f.node):
                    if isinstance(st, ast.Assign) and len(st.targets) == 1 and isinstance(st.targets[0], ast.Name) and counts.get(st.targets[0].id) == 1 and \
                            isinstance(st.value, ast.Attribute):
                        tok = self.const_token(st.value)
                        if tok is not None:
                            self._local_const_alias[st.targets[0].id] = tok
            return self._local_const_alias.get(parts[0])
        if len(parts) >= 2:
            attr = parts[-1]
            owner = ".".join(parts[:-1])
            cls = None
            if owner == "self" and self.cls is not None:
                cls = self.cls
            elif owner in ("self.solver",):
                cls = self.prog.cls("SolverWrapper") if self.prog.has_cls("SolverWrapper") else None
            else:
                if owner in self.mod.classes:
                    cls = self.mod.classes[owner]
                else:
                    obj = self.prog.find_dotted(self.prog.expand_alias(self.mod, owner))
                    if isinstance(obj, ClassInfo):
                        cls = obj
            if cls is not None:
                v = self.prog.lookup_class_attr(cls, attr)
                if isinstance(v, ast.Constant):
                    return repr(v.value)
        return None

    def model_key_of_status_expr(self, node: ast.AST) -> Optional[str]:
        """<m>.solver.get_model_status() / <m>.get_model_status()  ->  key of m."""
        if isinstance(node, ast.Call) and isinstance(node.func, ast.Attribute) and node.func.attr == "get_model_status":
            recv = dotted(node.func.value)
            if recv is None:
                return None
            if recv.endswith(".solver"):
                recv = recv[: -len(".solver")]
            elif recv == "solver":
                recv = "self"
            return recv
        if isinstance(node, ast.Name) and node.id in self.status_alias:
            return self.status_alias[node.id]
        return None

    def model_key_of_solved_expr(self, node: ast.AST) -> Optional[str]:
        """<m>.is_solved()  ->  key of m"""
        if isinstance(node, ast.Call) and isinstance(node.func, ast.Attribute) and node.func.attr == "is_solved" and not node.args:
            return dotted(node.func.value)
        return None

    def solve_call_key(self, call: ast.Call) -> Optional[str]:
        """<m>.solve() / <m>.solver.optimize() / self.solver.optimize() -> key of m"""
        if not isinstance(call.func, ast.Attribute):
            return None
        recv = dotted(call.func.value)
        if recv is None:
            return None
        if call.func.attr == "solve":
            return recv
        if call.func.attr == "optimize":
            if recv.endswith(".solver"):
                return recv[: -len(".solver")]
            return recv
        return None

    # ----------------------------------------------------------- transfer
    def _map(self, state, fn):
        out = set()
        for w in state:
            r = fn(w)
            if r is not None:
                out.add(r)
        return frozenset(out) if out else None

    def effects_of_expr(self, expr: ast.AST, state):
        """Apply solve()/optimize() effects of calls inside an expression, in evaluation order."""
        if state is None:
            return None
        for n in ast.walk(expr):
            if isinstance(n, ast.Call):
                k = self.solve_call_key(n)
                if k is not None:
                    self.solve_keys.add(k)
                    state = self._map(state, lambda w, k=k: w.set(k, TOP3))
                    self.on_solve_call(n, k, state)
                self.on_call(n, state)
        return state

    def on_solve_call(self, call, key, state):
        pass

    def on_call(self, call, state):
        pass

    def assign_name(self, target: str, value: Optional[ast.AST], state):
        """target is a dotted name (local or self.attr)."""
        def f(w: World):
            w2 = w.kill_prefix(target)
            if value is None:
                return w2
            tok = self.const_token(value)
            if tok is not None:
                return w2.set(target, [tok]).set("N:" + target, [NONE] if tok == "None" else [NOTNONE])
            src = dotted(value)
            if src is not None and (w.get(src) is not None or w.get("N:" + src) is not None):
                w3 = w2
                if w.get(src) is not None:
                    w3 = w3.set(target, w.get(src))
                if w.get("N:" + src) is not None:
                    w3 = w3.set("N:" + target, w.get("N:" + src))
                return w3
            if isinstance(value, ast.Call):
                tgt = self.prog.resolve_call(value, self.mod, self.cls)
                # a freshly constructed model: verdict unknown
                callee = dotted(value.func) or ""
                if tgt is not None and getattr(tgt, "name", "") == "__init__" or callee.endswith("model_type"):
                    return w2.set(target, TOP3)
            return w2
        self.status_alias.pop(target, None)
        if value is not None:
            k = self.model_key_of_status_expr(value)
            if k is not None and "." not in target:
                self.status_alias[target] = k
        return self._map(state, f)

    def transfer(self, stmt, state):
        if state is None:
            return None
        if isinstance(stmt, ast.Assign):
            state = self.effects_of_expr(stmt.value, state)
            for t in stmt.targets:
                d = dotted(t)
                if d is not None:
                    state = self.assign_name(d, stmt.value, state)
                    self.on_assign(stmt, d, stmt.value, state)
                else:
                    for n in ast.walk(t):
                        dn = dotted(n) if isinstance(n, (ast.Name, ast.Attribute)) and isinstance(getattr(n, "ctx", None), ast.Store) else None
                        if dn:
                            state = self.assign_name(dn, None, state)
            return state
        if isinstance(stmt, ast.AugAssign):
            state = self.effects_of_expr(stmt.value, state)
            d = dotted(stmt.target)
            if d:
                state = self.assign_name(d, None, state)
            return state
        if isinstance(stmt, ast.AnnAssign):
            if stmt.value is not None:
                state = self.effects_of_expr(stmt.value, state)
            d = dotted(stmt.target)
            if d:
                state = self.assign_name(d, stmt.value, state)
            return state
        if isinstance(stmt, ast.Expr):
            return self.effects_of_expr(stmt.value, state)
        if isinstance(stmt, ast.Return):
            if stmt.value is not None:
                return self.effects_of_expr(stmt.value, state)
            return state
        if isinstance(stmt, (ast.Delete,)):
            for t in stmt.targets:
                d = dotted(t)
                if d:
                    state = self.assign_name(d, None, state)
            return state
        return state

    def on_assign(self, stmt, target, value, state):
        pass

    def bind_for(self, stmt, state):
        for n in ast.walk(stmt.target):
            if isinstance(n, ast.Name):
                state = self.assign_name(n.id, None, state)
        return state

    def enter_with(self, stmt, state):
        for it in stmt.items:
            state = self.effects_of_expr(it.context_expr, state)
        return state

    # ------------------------------------------------------------- refine
    def refine(self, test, pol, state):
        if state is None:
            return None
        state = self.effects_of_expr(test, state)
        if state is None:
            return None
        # <m>.is_solved()
        k = self.model_key_of_solved_expr(test)
        if k is not None:
            return self._restrict(state, k, {OPT} if pol else {INF, OTHER}, default=TOP3)
        # if <m>.solve():
        if isinstance(test, ast.Call):
            sk = self.solve_call_key(test)
            if sk is not None and test.func.attr == "solve":
                return self._restrict(state, sk, {OPT} if pol else {INF, OTHER}, default=TOP3)
        if isinstance(test, ast.Compare) and len(test.ops) == 1:
            op = test.ops[0]
            left, right = test.left, test.comparators[0]
            # status comparisons
            mk = self.model_key_of_status_expr(left)
            other = right
            if mk is None:
                mk = self.model_key_of_status_expr(right)
                other = left
            if mk is not None:
                toks = None
                if isinstance(op, (ast.Eq, ast.NotEq, ast.Is, ast.IsNot)):
                    t = self.const_token(other)
                    toks = [t] if t is not None else None
                    positive = isinstance(op, (ast.Eq, ast.Is)) == pol
                elif isinstance(op, (ast.In, ast.NotIn)) and isinstance(other, (ast.Tuple, ast.List, ast.Set)):
                    toks = [self.const_token(e) for e in other.elts]
                    if any(t is None for t in toks):
                        toks = None
                    positive = isinstance(op, ast.In) == pol
                if toks is None:
                    return state
                classes = {classify_status_token(t) for t in toks}
                if positive:
                    return self._restrict(state, mk, classes, default=TOP3)
                # negative: the status is none of these tokens; only opt/inf are singleton classes
                removable = {c for c in classes if c in (OPT, INF)}
                # a class is removed only if *all* its constants are listed for HiGHS ('kOptimal') -
                # the Gurobi code is raw-mode only; comparing against the HiGHS name covers get_model_status()
                return self._restrict(state, mk, TOP3 - removable, default=TOP3)
            # constant / none-ness comparisons on tracked names
            ld = dotted(left)
            if ld is not None:
                tok = self.const_token(right)
                if isinstance(op, (ast.Is, ast.IsNot, ast.Eq, ast.NotEq)) and tok is not None:
                    positive = isinstance(op, (ast.Is, ast.Eq)) == pol
                    return self._restrict_const(state, ld, tok, positive)
            return self.branch_fact(test, pol, state)
        # truthiness of a name:  if x: / if not x:
        d = dotted(test)
        if d is not None:
            def f(w: World):
                v = w.get(d)
                if v is None:
                    return w.set(d, [TRUTHY] if pol else [FALSY])
                keep = frozenset(t for t in v if (t not in FALSY_TOKENS) == pol or (t == NOTNONE and pol))
                return w.set(d, keep) if keep else None
            return self._map(state, f)
        return self.branch_fact(test, pol, state)

    # regexes (on the normalised test text) of uninterpreted tests whose outcome is worth remembering as a
    # control-dependence fact; everything else is dropped, which keeps the number of worlds small
    FACT_PATTERNS = (r"len\(paths\)", r"get_solution\(", r"edges_to_ignore", r"self\.k\b")

    def branch_fact(self, test, pol, state):
        """Record the outcome of an otherwise uninterpreted test as a fact '?<test>' -> {'True'|'False'}.  Negative comparison
        operators are recorded as the positive test with the opposite outcome (`a != b` false  ==  `a == b` true)."""
        if isinstance(test, ast.Compare) and len(test.ops) == 1 and isinstance(test.ops[0], (ast.NotEq, ast.NotIn, ast.IsNot)):
            pos = {ast.NotEq: ast.Eq, ast.NotIn: ast.In, ast.IsNot: ast.Is}[type(test.ops[0])]
            test = ast.Compare(left=test.left, ops=[pos()], comparators=test.comparators)
            pol = not pol
        txt = norm(test)
        if not any(re.search(p, txt) for p in self.FACT_PATTERNS):
            return state
        key = "?" + txt

        def f(w: World):
            cur = w.get(key)
            if cur is not None and str(pol) not in cur:
                return None
            return w.set(key, [str(pol)])
        return self._map(state, f)

    def _restrict(self, state, key, allowed, default=None):
        allowed = frozenset(allowed)

        def f(w: World):
            cur = w.get(key)
            if cur is None:
                cur = default
            if cur is None:
                return w
            new = cur & allowed
            return w.set(key, new) if new else None
        return self._map(state, f)

    def _restrict_const(self, state, key, tok, positive):
        def f(w: World):
            if tok == "None":
                nk = "N:" + key
                cur = w.get(nk)
                want = NONE if positive else NOTNONE
                if cur is not None and want not in cur:
                    return None
                w = w.set(nk, [want])
                cv = w.get(key)
                if cv is not None and all(not t.startswith("opt") and t not in (OPT, INF, OTHER) for t in cv):
                    new = frozenset(t for t in cv if (t == "None") == positive)
                    if not new:
                        return None
                    w = w.set(key, new)
                return w
            cur = w.get(key)
            if cur is None:
                return w.set(key, [tok]) if positive else w
            new = frozenset(t for t in cur if (t == tok) == positive)
            return w.set(key, new) if new else None
        return self._map(state, f)


def must(state, key, allowed) -> bool:
    """In every world the value set of key is known and a subset of `allowed`."""
    if state is None:
        return True
    allowed = frozenset(allowed)
    for w in state:
        v = w.get(key)
        if v is None or not v <= allowed:
            return False
    return True


def describe(state, keys=None) -> str:
    if state is None:
        return "unreachable"
    out = []
    for w in sorted(state, key=repr):
        d = {k: v for k, v in w.d.items() if keys is None or k in keys}
        out.append("{" + ", ".join(f"{k}:{'|'.join(sorted(v))}" for k, v in sorted(d.items())) + "}")
    return " or ".join(sorted(set(out)))


def passed(state, preds, polarity: bool) -> bool:
    """Every world passed through a test whose normalised text (blanks removed) is in `preds` with the given
    outcome (control dependence with polarity), whether or not its operands were re-bound afterwards."""
    if state is None:
        return True
    want = frozenset([str(polarity)])
    preds = {p.replace(" ", "") for p in preds}
    for w in state:
        ok = False
        for k, v in w.d.items():
            if k.startswith("?") and v == want:
                t = k[5:] if k.startswith("?was:") else k[1:]
                if t.replace(" ", "") in preds:
                    ok = True
                    break
        if not ok:
            return False
    return True
