"""CFG-equivalent structured forward dataflow over Python function bodies.

Python has no goto, so the control-flow graph of a function is fully determined by the
statement structure.  Instead of materialising nodes and edges, this engine interprets
the structure directly: every statement kind the repository uses (if/elif/else, for,
while, break, continue, return, raise, try/except/else/finally, with, match is absent)
is given its flow semantics, branch edges carry (test, polarity) to `refine`, loops are
iterated to a fixpoint, and joins call `join`.  The result is exactly the meet-over-paths
solution on the CFG for distributive analyses, and a sound approximation otherwise.

A client subclasses `Flow` and supplies the lattice:

    initial(func)            -> state at function entry
    join(a, b)               -> least upper bound (for must-facts: intersection)
    transfer(stmt, state)    -> state after a simple statement (Assign, Expr, ...)
    refine(test, pol, state) -> state on the branch where `test` evaluated to `pol`
                                (return None when that branch is infeasible)
    bind_for(stmt, state)    -> state at the head of a loop body (target re-bound)
    on_return / on_raise / on_fallthrough / on_back_edge(loop, state) -> observation hooks

States must support ==.  `None` denotes "unreachable".
"""
from __future__ import annotations

import ast
from typing import Any, List, Optional


class Outcome:
    __slots__ = ("normal", "breaks", "continues")

    def __init__(self, normal, breaks=None, continues=None):
        self.normal = normal
        self.breaks = breaks or []
        self.continues = continues or []


def const_truth(test: ast.AST) -> Optional[bool]:
    if isinstance(test, ast.Constant):
        return bool(test.value)
    if isinstance(test, ast.BoolOp) and isinstance(test.op, ast.Or):
        vals = [const_truth(v) for v in test.values]
        if any(v is True for v in vals):
            return True
        if all(v is False for v in vals):
            return False
    if isinstance(test, ast.BoolOp) and isinstance(test.op, ast.And):
        vals = [const_truth(v) for v in test.values]
        if any(v is False for v in vals):
            return False
        if all(v is True for v in vals):
            return True
    if isinstance(test, ast.UnaryOp) and isinstance(test.op, ast.Not):
        v = const_truth(test.operand)
        return None if v is None else (not v)
    return None


class Flow:
    MAX_ITER = 12

    # ------------------------------------------------------------- lattice
    def initial(self, func: ast.AST) -> Any:
        raise NotImplementedError

    def join(self, a: Any, b: Any) -> Any:
        raise NotImplementedError

    def transfer(self, stmt: ast.stmt, state: Any) -> Any:
        return state

    def refine(self, test: ast.AST, polarity: bool, state: Any) -> Any:
        return state

    def bind_for(self, stmt: ast.For, state: Any) -> Any:
        return state

    def enter_with(self, stmt: ast.With, state: Any) -> Any:
        return state

    def enter_handler(self, handler: ast.ExceptHandler, state: Any) -> Any:
        return state

    # --------------------------------------------------------------- hooks
    def on_return(self, stmt: ast.Return, state: Any) -> None:
        pass

    def on_raise(self, stmt: ast.Raise, state: Any) -> None:
        pass

    def on_fallthrough(self, func: ast.AST, state: Any) -> None:
        pass

    def on_back_edge(self, loop: ast.stmt, state: Any) -> None:
        pass

    def on_loop_exhausted(self, loop: ast.stmt, state: Any) -> None:
        """State when the loop ends because its iterator / condition is exhausted (not via break)."""
        pass

    def on_stmt(self, stmt: ast.stmt, state: Any) -> None:
        """Called for every reachable statement with the state before it."""
        pass

    # -------------------------------------------------------------- driver
    def run(self, func: ast.AST) -> Any:
        st = self.initial(func)
        out = self.block(func.body, st)
        if out.normal is not None:
            self.on_fallthrough(func, out.normal)
        return out.normal

    def _join(self, a, b):
        if a is None:
            return b
        if b is None:
            return a
        return self.join(a, b)

    def _join_all(self, states):
        cur = None
        for s in states:
            cur = self._join(cur, s)
        return cur

    def _refine(self, test, pol, state):
        if state is None:
            return None
        ct = const_truth(test)
        if ct is not None and ct != pol:
            return None
        return self.refine_compound(test, pol, state)

    def refine_compound(self, test, pol, state):
        """Decompose and/or/not so that clients only see atomic tests."""
        if isinstance(test, ast.UnaryOp) and isinstance(test.op, ast.Not):
            return self._refine(test.operand, not pol, state)
        if isinstance(test, ast.BoolOp):
            is_and = isinstance(test.op, ast.And)
            if is_and == pol:
                # and/True or or/False: all operands have polarity pol, sequentially
                cur = state
                for v in test.values:
                    cur = self._refine(v, pol, cur)
                    if cur is None:
                        return None
                return cur
            # and/False or or/True: some operand has polarity pol, earlier ones have not pol
            results = []
            prefix = state
            for v in test.values:
                if prefix is None:
                    break
                results.append(self._refine(v, pol, prefix))
                prefix = self._refine(v, not pol, prefix)
            return self._join_all(results)
        return self.refine(test, pol, state)

    def block(self, stmts: List[ast.stmt], state) -> Outcome:
        breaks, continues = [], []
        cur = state
        for st in stmts:
            if cur is None:
                break
            out = self.stmt(st, cur)
            breaks += out.breaks
            continues += out.continues
            cur = out.normal
        return Outcome(cur, breaks, continues)

    def stmt(self, st: ast.stmt, state) -> Outcome:
        self.on_stmt(st, state)
        if isinstance(st, ast.If):
            t = self._refine(st.test, True, state)
            f = self._refine(st.test, False, state)
            o1 = self.block(st.body, t) if t is not None else Outcome(None)
            o2 = self.block(st.orelse, f) if f is not None else Outcome(None)
            return Outcome(self._join(o1.normal, o2.normal), o1.breaks + o2.breaks, o1.continues + o2.continues)
        if isinstance(st, (ast.For, ast.AsyncFor)):
            return self._loop(st, state, is_for=True)
        if isinstance(st, ast.While):
            return self._loop(st, state, is_for=False)
        if isinstance(st, ast.Return):
            self.on_return(st, self.transfer(st, state))
            return Outcome(None)
        if isinstance(st, ast.Raise):
            self.on_raise(st, state)
            return Outcome(None)
        if isinstance(st, ast.Break):
            return Outcome(None, breaks=[state])
        if isinstance(st, ast.Continue):
            return Outcome(None, continues=[state])
        if isinstance(st, (ast.With, ast.AsyncWith)):
            s = self.enter_with(st, state)
            return self.block(st.body, s)
        if isinstance(st, ast.Try) or st.__class__.__name__ == "TryStar":
            return self._try(st, state)
        if isinstance(st, (ast.FunctionDef, ast.AsyncFunctionDef, ast.ClassDef)):
            return Outcome(self.transfer(st, state))
        if isinstance(st, ast.Match):  # pragma: no cover - not used by the repository
            outs = [self.block(c.body, state) for c in st.cases]
            return Outcome(self._join_all([o.normal for o in outs] + [state]),
                           sum((o.breaks for o in outs), []), sum((o.continues for o in outs), []))
        return Outcome(self.transfer(st, state))

    quiet = 0          # > 0 while a loop body is being iterated towards its fixpoint: observation hooks must not record

    def record(self, lst: list, item) -> None:
        """Append an observation only on the final (stable) pass over enclosing loops."""
        if self.quiet == 0:
            lst.append(item)

    def _loop(self, st, state, is_for: bool) -> Outcome:
        head = state
        it = 0
        # phase 1: iterate quietly to the fixpoint of the loop-head state
        self.quiet += 1
        try:
            while True:
                it += 1
                body_in = self.bind_for(st, head) if is_for else self._refine(st.test, True, head)
                if body_in is None:
                    back = None
                else:
                    out = self.block(st.body, body_in)
                    back = self._join_all([out.normal] + out.continues)
                new_head = self._join(state, back) if back is not None else head
                if new_head == head or it >= self.MAX_ITER:
                    head = new_head
                    break
                head = new_head
        finally:
            self.quiet -= 1
        self.loop_iterations = max(getattr(self, "loop_iterations", 0), it)
        # phase 2: one recording pass from the stable head
        body_in = self.bind_for(st, head) if is_for else self._refine(st.test, True, head)
        all_breaks = []
        if body_in is not None:
            out = self.block(st.body, body_in)
            back = self._join_all([out.normal] + out.continues)
            all_breaks = out.breaks
            if back is not None:
                self.on_back_edge(st, back)
        exhausted = head if is_for else self._refine(st.test, False, head)
        if exhausted is not None:
            self.on_loop_exhausted(st, exhausted)
        o_else = self.block(st.orelse, exhausted) if (st.orelse and exhausted is not None) else Outcome(exhausted)
        normal = self._join_all([o_else.normal] + all_breaks)
        return Outcome(normal, o_else.breaks, o_else.continues)

    def _try(self, st, state) -> Outcome:
        # states from which an exception may propagate: before the body and after each top-level stmt
        exc_states = [state]
        breaks, continues = [], []
        cur = state
        for s in st.body:
            if cur is None:
                break
            o = self.stmt(s, cur)
            breaks += o.breaks
            continues += o.continues
            cur = o.normal
            if cur is not None:
                exc_states.append(cur)
        body_normal = cur
        if st.orelse and body_normal is not None:
            o = self.block(st.orelse, body_normal)
            breaks += o.breaks
            continues += o.continues
            body_normal = o.normal
        normals = [body_normal]
        h_in = self._join_all(exc_states)
        for h in st.handlers:
            hs = self.enter_handler(h, h_in)
            o = self.block(h.body, hs)
            breaks += o.breaks
            continues += o.continues
            normals.append(o.normal)
        normal = self._join_all(normals)
        if st.finalbody:
            # finally runs on every exit; model the normal continuation (and keep breaks/continues)
            fin_in = normal if normal is not None else h_in
            o = self.block(st.finalbody, fin_in)
            breaks += o.breaks
            continues += o.continues
            normal = o.normal if normal is not None else None
        return Outcome(normal, breaks, continues)
