"""MIR - abstract interpretation of model-building code into a symbolic MILP description.

`extract(prog, cls, func)` walks one encoder method in statement order and records every *effect* on the solver
(add_variables, add_constraint, the three modelling helpers, queue_fix_variable, queue_set_var_lower_bound,
set_objective) and every safety-flag store, each with its *context*: the enclosing `for` binders and the positive /
negative guards (`if c: continue|return|raise` becomes a negative guard for what follows).  Locals are substituted by
their reaching definition (flow-sensitive over the statement structure).

`linear_nf(expr, ...)` brings a constraint / objective expression to the linear normal form

      REL ,  { term-key -> coefficient polynomial } ,  constant polynomial

where a term key is  "SUM[<binders>] <family>[<index>]"; quicksum / qsum / builtin sum / generator nesting are all Sigma;
bound variables (of Sigma and of the enclosing loops) are alpha-renamed; side of the relation, sign, term order, loop
nesting order, `(i)` vs `i` and edge-attribute access idioms do not matter.  Anything non-linear is OPAQUE(text).
"""
from __future__ import annotations

import ast
import copy
import re
from dataclasses import dataclass, field
from typing import Dict, List, Optional, Set, Tuple

from .pm import Program, FuncInfo, ClassInfo, dotted, norm, kwarg, walk_no_nested, calls_in, AnalysisError
from .poly import Poly, to_poly

SOLVER_EFFECTS = {"add_variables", "add_constraint", "add_binary_continuous_product_constraint",
                  "add_integer_continuous_product_constraint", "add_piecewise_constant_constraint",
                  "queue_fix_variable", "queue_set_var_lower_bound", "set_objective", "fix_variable"}
SUM_FUNCS = {"quicksum", "qsum", "sum"}
FLAG_ATTRS = {"edges_set_to_one", "edges_set_to_zero"}


@dataclass
class Ctx:
    kind: str            # 'for' | 'if'
    target: Optional[ast.AST] = None
    iter: Optional[ast.AST] = None
    test: Optional[ast.AST] = None
    pol: bool = True


@dataclass
class Effect:
    kind: str
    node: ast.AST
    ctx: List[Ctx]
    args: Dict[str, ast.AST]
    target: Optional[str] = None        # assigned name for add_variables
    func: Optional[FuncInfo] = None
    order: int = 0
    builders: Optional[dict] = None

    @property
    def lineno(self):
        return getattr(self.node, "lineno", 0)


# ------------------------------------------------------------------------------------------ extraction
class _Subst(ast.NodeTransformer):
    def __init__(self, env):
        self.env = env

    def visit_Name(self, node):
        if isinstance(node.ctx, ast.Load) and node.id in self.env:
            return copy.deepcopy(self.env[node.id])
        return node

    # do not substitute names bound by a comprehension inside the expression
    def _comp(self, node):
        bound = set()
        for g in node.generators:
            for n in ast.walk(g.target):
                if isinstance(n, ast.Name):
                    bound.add(n.id)
        env2 = {k: v for k, v in self.env.items() if k not in bound}
        sub = _Subst(env2)
        for fld in ("elt", "key", "value"):
            if hasattr(node, fld):
                setattr(node, fld, sub.visit(getattr(node, fld)))
        for g in node.generators:
            g.iter = sub.visit(g.iter)
            g.ifs = [sub.visit(i) for i in g.ifs]
        return node

    visit_GeneratorExp = _comp
    visit_ListComp = _comp
    visit_SetComp = _comp
    visit_DictComp = _comp


def subst(e: ast.AST, env: Dict[str, ast.AST]) -> ast.AST:
    if not env:
        return copy.deepcopy(e)
    return _Subst(env).visit(copy.deepcopy(e))


def _ends_in_jump(body: List[ast.stmt]) -> bool:
    return bool(body) and isinstance(body[-1], (ast.Continue, ast.Return, ast.Raise, ast.Break))


def _assigned_names(stmts) -> Set[str]:
    out = set()
    for s in stmts:
        for n in ast.walk(s):
            if isinstance(n, ast.Name) and isinstance(n.ctx, (ast.Store, ast.Del)):
                out.add(n.id)
    return out


SUBSTITUTABLE = (ast.Name, ast.Attribute, ast.Subscript, ast.Call, ast.BinOp, ast.Constant, ast.IfExp, ast.UnaryOp,
                 ast.Compare, ast.BoolOp, ast.ListComp, ast.SetComp, ast.DictComp, ast.GeneratorExp, ast.List, ast.Tuple,
                 ast.Dict, ast.Set)


DOMAIN_WRAPPERS = {"list", "sorted", "tuple", "set", "frozenset"}
PARAMS = {
    "add_variables": ["indexes", "name_prefix", "lb", "ub", "var_type"],
    "add_constraint": ["expr", "name"],
    "add_binary_continuous_product_constraint": ["binary_var", "continuous_var", "product_var", "lb", "ub", "name"],
    "add_integer_continuous_product_constraint": ["integer_var", "continuous_var", "product_var", "lb", "ub", "name", "integer_ub"],
    "add_piecewise_constant_constraint": ["x", "y", "ranges", "constants", "name_prefix"],
    "queue_fix_variable": ["var", "value"],
    "queue_set_var_lower_bound": ["var", "lb"],
    "fix_variable": ["var", "value"],
    "set_objective": ["expr", "sense"],
}
_FRESH = [0]


def _fresh(base: str) -> str:
    _FRESH[0] += 1
    return f"_c{_FRESH[0]}_{base}"


def _tuple_index_simplify(e: ast.AST) -> ast.AST:
    """(a, b)[0] -> a   (after substituting a local tuple alias)"""
    class S(ast.NodeTransformer):
        def visit_Call(self, node):
            node = self.generic_visit(node)
            if any(isinstance(a, ast.Starred) and isinstance(a.value, (ast.Tuple, ast.List)) for a in node.args):
                args = []
                for a in node.args:
                    if isinstance(a, ast.Starred) and isinstance(a.value, (ast.Tuple, ast.List)):
                        args.extend(a.value.elts)
                    else:
                        args.append(a)
                node.args = args
            return node

        def visit_Subscript(self, node):
            node = self.generic_visit(node)
            if isinstance(node.value, ast.Tuple) and isinstance(node.slice, ast.Constant) and isinstance(node.slice.value, int) and \
                    -len(node.value.elts) <= node.slice.value < len(node.value.elts):
                return node.value.elts[node.slice.value]
            # [f(i) for i in range(n)][j] -> f(j): over range(n) (also list(range(n))) the element at position j is the one built for the value j
            v = node.value
            if isinstance(v, ast.ListComp) and len(v.generators) == 1 and not v.generators[0].ifs and isinstance(v.generators[0].target, ast.Name) and \
                    isinstance(node.slice, ast.Name):
                it = v.generators[0].iter
                if isinstance(it, ast.Call) and dotted(it.func) == "list" and len(it.args) == 1:
                    it = it.args[0]
                if isinstance(it, ast.Call) and dotted(it.func) == "range" and len(it.args) == 1 and not it.keywords:
                    return subst(copy.deepcopy(v.elt), {v.generators[0].target.id: ast.Name(id=node.slice.id, ctx=ast.Load())})
            return node
    return S().visit(e)


def has_direct_effects(func_node: ast.AST) -> bool:
    for n in walk_no_nested(func_node):
        # a bound solver method taken as a value (local alias) counts: the call happens through the alias
        if isinstance(n, ast.Attribute) and n.attr in SOLVER_EFFECTS and dotted(n.value) in ("self.solver", "solver"):
            return True
        if isinstance(n, ast.Call) and isinstance(n.func, ast.Attribute) and n.func.attr in SOLVER_EFFECTS and dotted(n.func.value) in ("self.solver", "self"):
            return True
        if isinstance(n, ast.Assign):
            for t in n.targets:
                if isinstance(t, ast.Subscript) and (dotted(t.value) or "")[5:] in FLAG_ATTRS and (dotted(t.value) or "").startswith("self."):
                    return True
    return False


def comprehensionise(stmts: List[ast.stmt], _loads: Optional[Dict[str, int]] = None) -> List[ast.stmt]:
    """X = set() / [] / {} followed (next statement) by a loop nest whose only effect is X.add(E) / X.append(E) / X[K] = V,
    possibly under `if`s, is the comprehension {E for ... if ...}: rewrite it, so that an accumulator loop and the
    comprehension a refactoring turns it into have the same description."""
    out: List[ast.stmt] = []
    i = 0
    stmts = list(stmts)
    if _loads is None:
        _loads = {}
        for s_ in stmts:
            for n in ast.walk(s_):
                if isinstance(n, ast.Name) and isinstance(n.ctx, ast.Load):
                    _loads[n.id] = _loads.get(n.id, 0) + 1

    def loads_in(node) -> Dict[str, int]:
        d: Dict[str, int] = {}
        for n in ast.walk(node):
            if isinstance(n, ast.Name) and isinstance(n.ctx, ast.Load):
                d[n.id] = d.get(n.id, 0) + 1
        return d

    def strip_locals(loop: ast.For) -> ast.For:
        """for x in X: a = f(x); b = g(x); <leaf using a, b>   ->   for x in X: <leaf with a, b substituted>, when a and b
        are not read outside the loop"""
        cur = loop
        body = list(cur.body)
        k = 0
        env: Dict[str, ast.AST] = {}
        while k < len(body) - 1 and isinstance(body[k], ast.Assign) and len(body[k].targets) == 1 and isinstance(body[k].value, SUBSTITUTABLE) and \
                (isinstance(body[k].targets[0], ast.Name) or
                 (isinstance(body[k].targets[0], ast.Tuple) and all(isinstance(e_, ast.Name) for e_ in body[k].targets[0].elts))):
            if isinstance(body[k].targets[0], ast.Name):
                env[body[k].targets[0].id] = subst(body[k].value, env)
            else:
                # `a, b = E`  ->  a = E[0], b = E[1]   (description only: E is not evaluated here)
                val_ = subst(body[k].value, env)
                for pos_, e_ in enumerate(body[k].targets[0].elts):
                    env[e_.id] = ast.Subscript(value=copy.deepcopy(val_), slice=ast.Constant(value=pos_), ctx=ast.Load())
            k += 1
        if k == 0 or k != len(body) - 1:
            if len(body) == 1 and isinstance(body[0], ast.For):
                inner = strip_locals(body[0])
                if inner is not body[0]:
                    new = copy.copy(cur)
                    new.body = [inner]
                    return new
            return loop
        inside = loads_in(loop)
        if any(_loads.get(nm, 0) - inside.get(nm, 0) > 0 for nm in env):
            return loop
        leaf = body[-1]
        if any(isinstance(n, ast.Name) and isinstance(n.ctx, ast.Store) and n.id in env for n in ast.walk(leaf)):
            return loop
        new = copy.copy(cur)
        new.body = [_tuple_index_simplify(subst(leaf, env))]
        ast.fix_missing_locations(new)
        return new

    while i < len(stmts):
        st = stmts[i]
        done = False
        if isinstance(st, ast.Assign) and len(st.targets) == 1 and isinstance(st.targets[0], ast.Name) and i + 1 < len(stmts) and isinstance(stmts[i + 1], ast.For):
            stmts[i + 1] = strip_locals(stmts[i + 1])
            nm = st.targets[0].id
            v = st.value
            kind = None
            if (isinstance(v, ast.Call) and dotted(v.func) == "set" and not v.args) :
                kind = "set"
            elif (isinstance(v, ast.List) and not v.elts) or (isinstance(v, ast.Call) and dotted(v.func) == "list" and not v.args):
                kind = "list"
            elif (isinstance(v, ast.Dict) and not v.keys) or (isinstance(v, ast.Call) and dotted(v.func) == "dict" and not v.args):
                kind = "dict"
            if kind:
                gens: List[ast.comprehension] = []
                cur: ast.stmt = stmts[i + 1]
                ok = True
                leaf = None
                while ok:
                    # `if c: X[K] = A  else: X[K] = B`  is  `X[K] = A if c else B` (same for X.add / X.append of one element)
                    if isinstance(cur, ast.If) and len(cur.body) == 1 and len(cur.orelse) == 1 and gens:
                        a_, b_ = cur.body[0], cur.orelse[0]
                        if isinstance(a_, ast.Assign) and isinstance(b_, ast.Assign) and len(a_.targets) == 1 and len(b_.targets) == 1 and \
                                isinstance(a_.targets[0], ast.Subscript) and norm(a_.targets[0]) == norm(b_.targets[0]):
                            cur = ast.copy_location(ast.Assign(targets=[a_.targets[0]], value=ast.IfExp(test=cur.test, body=a_.value, orelse=b_.value)), cur)
                            ast.fix_missing_locations(cur)
                        elif isinstance(a_, ast.Expr) and isinstance(b_, ast.Expr) and isinstance(a_.value, ast.Call) and isinstance(b_.value, ast.Call) and \
                                norm(a_.value.func) == norm(b_.value.func) and len(a_.value.args) == 1 and len(b_.value.args) == 1 and not a_.value.keywords and \
                                isinstance(a_.value.func, ast.Attribute) and a_.value.func.attr in ("add", "append"):
                            cur = ast.copy_location(ast.Expr(value=ast.Call(func=a_.value.func, args=[ast.IfExp(test=cur.test, body=a_.value.args[0], orelse=b_.value.args[0])],
                                                                             keywords=[])), cur)
                            ast.fix_missing_locations(cur)
                    if isinstance(cur, ast.For) and not cur.orelse and len(cur.body) >= 2 and isinstance(cur.body[0], ast.If) and not cur.body[0].orelse and \
                            len(cur.body[0].body) == 1 and isinstance(cur.body[0].body[0], ast.Continue) and len(cur.body) == 2:
                        # `for x in X: if c: continue; S`  is  `for x in X: if not c: S`
                        neg = ast.UnaryOp(op=ast.Not(), operand=cur.body[0].test)
                        if isinstance(cur.body[0].test, ast.Compare) and len(cur.body[0].test.ops) == 1 and isinstance(cur.body[0].test.ops[0], (ast.In, ast.NotIn)):
                            t0 = cur.body[0].test
                            neg = ast.Compare(left=t0.left, ops=[ast.NotIn() if isinstance(t0.ops[0], ast.In) else ast.In()], comparators=t0.comparators)
                        folded = ast.If(test=neg, body=[cur.body[1]], orelse=[])
                        cur2 = copy.copy(cur)
                        cur2.body = [ast.copy_location(folded, cur.body[0])]
                        ast.fix_missing_locations(cur2)
                        cur = cur2
                    if isinstance(cur, ast.For) and not cur.orelse and len(cur.body) == 1:
                        gens.append(ast.comprehension(target=cur.target, iter=cur.iter, ifs=[], is_async=0))
                        cur = cur.body[0]
                    elif isinstance(cur, ast.If) and not cur.orelse and len(cur.body) == 1 and gens:
                        gens[-1].ifs.append(cur.test)
                        cur = cur.body[0]
                    else:
                        leaf = cur
                        break
                comp = None
                uses_self = lambda e: any(isinstance(n, ast.Name) and n.id == nm for n in ast.walk(e))
                if leaf is not None and gens and not any(uses_self(g.iter) or any(uses_self(c) for c in g.ifs) for g in gens):
                    if kind in ("set", "list") and isinstance(leaf, ast.Expr) and isinstance(leaf.value, ast.Call) and isinstance(leaf.value.func, ast.Attribute) and \
                            dotted(leaf.value.func.value) == nm and leaf.value.func.attr == ("add" if kind == "set" else "append") and len(leaf.value.args) == 1 and \
                            not uses_self(leaf.value.args[0]):
                        comp = (ast.SetComp if kind == "set" else ast.ListComp)(elt=leaf.value.args[0], generators=gens)
                    elif kind in ("set", "list") and isinstance(leaf, ast.Expr) and isinstance(leaf.value, ast.Call) and isinstance(leaf.value.func, ast.Attribute) and \
                            dotted(leaf.value.func.value) == nm and leaf.value.func.attr == ("update" if kind == "set" else "extend") and len(leaf.value.args) == 1 and \
                            not uses_self(leaf.value.args[0]) and not isinstance(leaf.value.args[0], (ast.GeneratorExp, ast.ListComp, ast.SetComp)):
                        # X.update(Y) for every ...  ==  {e for ... for e in Y}
                        el = _fresh("elem")
                        gens2 = gens + [ast.comprehension(target=ast.Name(id=el, ctx=ast.Store()), iter=leaf.value.args[0], ifs=[], is_async=0)]
                        comp = (ast.SetComp if kind == "set" else ast.ListComp)(elt=ast.Name(id=el, ctx=ast.Load()), generators=gens2)
                    elif kind == "dict" and isinstance(leaf, ast.Assign) and len(leaf.targets) == 1 and isinstance(leaf.targets[0], ast.Subscript) and \
                            dotted(leaf.targets[0].value) == nm and not uses_self(leaf.value) and not uses_self(leaf.targets[0].slice):
                        comp = ast.DictComp(key=leaf.targets[0].slice, value=leaf.value, generators=gens)
                if comp is not None:
                    new = ast.Assign(targets=[ast.Name(id=nm, ctx=ast.Store())], value=comp, lineno=st.lineno)
                    ast.copy_location(new, st)
                    ast.fix_missing_locations(new)
                    out.append(new)
                    i += 2
                    done = True
        if not done:
            # recurse into compound statements
            st2 = st
            if isinstance(st, (ast.If, ast.For, ast.While, ast.With, ast.Try)):
                st2 = copy.copy(st)
                for fld in ("body", "orelse", "finalbody"):
                    if getattr(st2, fld, None):
                        setattr(st2, fld, comprehensionise(getattr(st2, fld), _loads))
            out.append(st2)
            i += 1
    return out


class _FnCtx:
    """per-function facts used while walking its body"""

    def __init__(self, func: FuncInfo):
        self.func = func
        self.mutated: Set[str] = set()
        self.builders: Dict[str, list] = {}
        self.body = comprehensionise(func.node.body)
        # equal-length facts of the function's own arguments: a top-level `if len(a) != len(b): ... raise` leaves len(a) == len(b)
        self.len_classes: List[Set[str]] = []
        params = {a.arg for a in func.node.args.args + func.node.args.kwonlyargs}
        for st in func.node.body:
            if isinstance(st, ast.If) and st.body and isinstance(st.body[-1], ast.Raise) and not st.orelse and \
                    isinstance(st.test, ast.Compare) and len(st.test.ops) == 1 and isinstance(st.test.ops[0], ast.NotEq):
                sides = [st.test.left, st.test.comparators[0]]
                if all(isinstance(x, ast.Call) and dotted(x.func) == "len" and len(x.args) == 1 and isinstance(x.args[0], ast.Name) and
                       x.args[0].id in params for x in sides):
                    a_, b_ = sides[0].args[0].id, sides[1].args[0].id
                    hit = [c for c in self.len_classes if a_ in c or b_ in c]
                    merged = {a_, b_}.union(*hit) if hit else {a_, b_}
                    self.len_classes = [c for c in self.len_classes if c not in hit] + [merged]
        node = ast.Module(body=self.body, type_ignores=[])
        for n in walk_no_nested(node):
            if isinstance(n, ast.Call) and isinstance(n.func, ast.Attribute) and isinstance(n.func.value, ast.Name) and \
                    n.func.attr in ("add", "append", "extend", "update", "insert", "remove", "discard", "pop", "clear", "setdefault"):
                self.mutated.add(n.func.value.id)
            if isinstance(n, (ast.Assign, ast.AugAssign)):
                tg = n.targets if isinstance(n, ast.Assign) else [n.target]
                for t in tg:
                    if isinstance(t, ast.Subscript) and isinstance(t.value, ast.Name):
                        self.mutated.add(t.value.id)
                    if isinstance(n, ast.AugAssign) and isinstance(t, ast.Name):
                        self.mutated.add(t.id)
        for n in walk_no_nested(node):
            if isinstance(n, ast.stmt) and not isinstance(n, (ast.If, ast.For, ast.While, ast.With, ast.Try, ast.FunctionDef)):
                for nm in self.mutated:
                    hit = False
                    if isinstance(n, ast.Assign) and any(isinstance(t, ast.Name) and t.id == nm for t in n.targets):
                        hit = True
                    elif isinstance(n, ast.AugAssign) and isinstance(n.target, ast.Name) and n.target.id == nm:
                        hit = True
                    elif isinstance(n, ast.Assign) and any(isinstance(t, ast.Subscript) and isinstance(t.value, ast.Name) and t.value.id == nm for t in n.targets):
                        hit = True
                    elif isinstance(n, ast.Expr) and isinstance(n.value, ast.Call) and isinstance(n.value.func, ast.Attribute) and \
                            isinstance(n.value.func.value, ast.Name) and n.value.func.value.id == nm:
                        hit = True
                    if hit:
                        self.builders.setdefault(nm, []).append((n.lineno, n))


class Extractor:
    """cls: the class whose MRO resolves `self.m(...)`; no_inline(owner_class_name, method_name) -> True for methods that
    are described on their own (tabled encoders): their calls are not followed.  Every other private method that has
    solver effects is inlined at its call sites (so that 'extract method' refactorings do not change the description),
    and methods that only compute and return an expression are inlined into the expressions that call them."""

    MAX_DEPTH = 3

    def __init__(self, prog: Program, func: FuncInfo, solver_names=("self.solver", "self"), cls: Optional[ClassInfo] = None, no_inline=None):
        self.prog = prog
        self.func = func
        self.cls = cls
        self.no_inline = no_inline
        self.effects: List[Effect] = []
        self.order = 0
        self.solver_names = solver_names
        self.stack: List[str] = []

    def run(self) -> List[Effect]:
        self.cur = _FnCtx(self.func)
        self.stack = [self.func.name]
        self._block(self.cur.body, [], {})
        return self.effects

    # ------------------------------------------------------------------ helpers
    @property
    def mutated(self):
        return self.cur.mutated

    def _is_solver_call(self, call: ast.Call, env=None) -> Optional[str]:
        func = call.func
        if env:
            # local aliases:  add = self.solver.add_constraint ... add(...)   /   solver = self.solver ... solver.add_constraint(...)
            if isinstance(func, ast.Name) and func.id in env:
                func = env[func.id]
            elif isinstance(func, ast.Attribute) and isinstance(func.value, ast.Name) and func.value.id in env and \
                    isinstance(env[func.value.id], (ast.Attribute, ast.Name)):
                func = ast.Attribute(value=env[func.value.id], attr=func.attr, ctx=ast.Load())
        if isinstance(func, ast.Attribute) and func.attr in SOLVER_EFFECTS:
            recv = dotted(func.value)
            if recv in self.solver_names:
                return func.attr
        return None

    def _resolve_self_method(self, call: ast.Call):
        if self.cls is None or not isinstance(call.func, ast.Attribute) or dotted(call.func.value) != "self":
            return None
        for c in self.prog.mro(self.cls):
            if call.func.attr in c.methods:
                return c, c.methods[call.func.attr]
        return None

    def _bind(self, callee: FuncInfo, call: ast.Call, env) -> Optional[Dict[str, ast.AST]]:
        a = callee.node.args
        if a.vararg or a.kwarg:
            return None
        params = [p.arg for p in a.posonlyargs + a.args]
        if params and params[0] in ("self", "cls"):
            params = params[1:]
        out: Dict[str, ast.AST] = {}
        if len(call.args) > len(params) or any(isinstance(x, ast.Starred) for x in call.args) or any(k.arg is None for k in call.keywords):
            return None
        for p, x in zip(params, call.args):
            out[p] = subst(x, env)
        names = params + [p.arg for p in a.kwonlyargs]
        for k in call.keywords:
            if k.arg not in names:
                return None
            out[k.arg] = subst(k.value, env)
        defaults = dict(zip(params[len(params) - len(a.defaults):], a.defaults)) if a.defaults else {}
        for p, d in zip(a.kwonlyargs, a.kw_defaults):
            if d is not None:
                defaults[p.arg] = d
        for p in names:
            if p not in out:
                if p not in defaults:
                    return None
                out[p] = copy.deepcopy(defaults[p])
        return out

    def _pure_value(self, callee: FuncInfo, env_c: Dict[str, ast.AST]) -> Optional[ast.AST]:
        """symbolic value of a method that only computes and returns an expression (straight-line locals, if/else returns)"""
        def run(stmts, env) -> Optional[ast.AST]:
            env = dict(env)
            for i, st in enumerate(stmts):
                if isinstance(st, ast.Expr) and isinstance(st.value, ast.Constant):
                    continue
                if isinstance(st, ast.Assign) and len(st.targets) == 1 and isinstance(st.targets[0], ast.Name) and isinstance(st.value, SUBSTITUTABLE):
                    env[st.targets[0].id] = subst(st.value, env)
                    continue
                if isinstance(st, ast.Return) and st.value is not None:
                    return subst(st.value, env)
                if isinstance(st, ast.If):
                    a = run(st.body, env)
                    b = run(st.orelse + stmts[i + 1:], env) if True else None
                    if a is None or b is None:
                        return None
                    return ast.IfExp(test=subst(st.test, env), body=a, orelse=b)
                return None
            return None
        if has_direct_effects(callee.node):
            return None
        for n in walk_no_nested(callee.node):
            if isinstance(n, (ast.For, ast.While, ast.Try, ast.With, ast.AugAssign, ast.Raise)):
                return None
            if isinstance(n, ast.Assign) and not all(isinstance(t, ast.Name) for t in n.targets):
                return None
        return run(callee.node.body, env_c)

    def _inline_pure(self, e: ast.AST, env, depth=0) -> ast.AST:
        if self.cls is None or depth > self.MAX_DEPTH:
            return e
        ex = self

        class I(ast.NodeTransformer):
            def visit_Call(self, node):
                node = self.generic_visit(node)
                r = ex._resolve_self_method(node)
                if r is None:
                    return node
                owner, callee = r
                if callee.name in ex.stack:
                    return node
                b = ex._bind(callee, node, {})
                if b is None:
                    return node
                v = ex._pure_value(callee, b)
                if v is None:
                    return node
                ex.stack.append(callee.name)
                try:
                    return ex._inline_pure(v, {}, depth + 1)
                finally:
                    ex.stack.pop()
        return I().visit(e)

    def _expr(self, e: ast.AST, env) -> ast.AST:
        """substituted, helper-inlined, domain-expanded expression"""
        x = subst(e, env)
        x = self._inline_pure(x, env)
        x = _tuple_index_simplify(x)
        x = self._expand_comprehensions(x, env)
        if getattr(self.cur, "len_classes", None):
            this = self

            class L(ast.NodeTransformer):
                def visit_Call(self, n):
                    self.generic_visit(n)
                    if dotted(n.func) == "len" and len(n.args) == 1 and not n.keywords:
                        rep = this._len_rep(n.args[0])
                        if rep is not None and rep != dotted(n.args[0]):
                            n = copy.copy(n)
                            n.args = [ast.parse(rep, mode="eval").body]
                    return n
            x = L().visit(copy.deepcopy(x))
        return x

    # ------------------------------------------------------------------ iteration domains
    def _domain(self, target: ast.AST, it: ast.AST, env) -> Tuple[List[Ctx], Dict[str, ast.AST]]:
        """Canonical description of `for target in it`: a list of for/if context entries and bindings for target names.
        Comprehension domains are flattened ([t for t in D if c] -> binder over D, guard c), enumerate / items are turned
        into index form, copies (list(), sorted(), ...) are dropped, self attributes defined earlier in the same method are
        replaced by their definition."""
        it = self._inline_pure(subst(it, env), env)
        for _ in range(4):
            d = dotted(it)
            if d and d.startswith("self.") and d in env:
                it = copy.deepcopy(env[d])
                continue
            if isinstance(it, ast.Call) and isinstance(it.func, ast.Name) and it.func.id in DOMAIN_WRAPPERS and len(it.args) == 1 and not it.keywords:
                it = it.args[0]
                continue
            if isinstance(it, ast.Call) and isinstance(it.func, ast.Attribute) and it.func.attr == "keys" and not it.args:
                it = it.func.value
                continue
            break
        binds: Dict[str, ast.AST] = {}
        if isinstance(it, (ast.ListComp, ast.GeneratorExp, ast.SetComp)) and isinstance(it.elt, ast.Name) and isinstance(target, (ast.Tuple, ast.List)) and \
                any(isinstance(g.target, ast.Name) and g.target.id == it.elt.id for g in it.generators) and \
                all(isinstance(x, ast.Name) for x in target.elts):
            # for (u, v) in [e for e in D if c(e)]: the generator variable *is* the loop element: bind it to the loop's own tuple
            it = copy.deepcopy(it)
            nm = it.elt.id
            tup = ast.Tuple(elts=[ast.Name(id=x.id, ctx=ast.Load()) for x in target.elts], ctx=ast.Load())

            for g in it.generators:
                if isinstance(g.target, ast.Name) and g.target.id == nm:
                    g.target = ast.Tuple(elts=[ast.Name(id=x.id, ctx=ast.Store()) for x in target.elts], ctx=ast.Store())
                else:
                    g.iter = subst(g.iter, {nm: tup})
                g.ifs = [_tuple_index_simplify(subst(c, {nm: tup})) for c in g.ifs]      # scope aware: inner comprehensions may re-bind the name
            it.elt = copy.deepcopy(tup)
        if isinstance(it, (ast.ListComp, ast.GeneratorExp, ast.SetComp)):
            out: List[Ctx] = []
            ren: Dict[str, str] = {}
            for g in it.generators:
                names = [n.id for n in ast.walk(g.target) if isinstance(n, ast.Name)]
                for nm in names:
                    ren[nm] = _fresh(nm)
                g_it = Renamer({k: v for k, v in ren.items() if k not in names}).visit(copy.deepcopy(g.iter))
                tgt = Renamer(ren).visit(copy.deepcopy(g.target))
                sub_ctx, sub_b = self._domain(tgt, g_it, {})
                out.extend(sub_ctx)
                binds.update(sub_b)
                for c in g.ifs:
                    out.append(Ctx("if", test=subst(Renamer(ren).visit(copy.deepcopy(c)), binds), pol=True))
            elt = subst(Renamer(ren).visit(copy.deepcopy(it.elt)), binds)
            self._unify(target, elt, binds)
            return out, binds
        Xp = _pairs_source(it)
        if Xp is not None and isinstance(target, (ast.Tuple, ast.List)) and len(target.elts) == 2:
            j = ast.Name(id=_fresh("pair"), ctx=ast.Store())
            rng = ast.parse("range(len(X) - 1)", mode="eval").body
            rng.args[0].left.args[0] = copy.deepcopy(Xp)
            xa = ast.Subscript(value=copy.deepcopy(Xp), slice=ast.Name(id=j.id, ctx=ast.Load()), ctx=ast.Load())
            xb = ast.Subscript(value=copy.deepcopy(Xp), slice=ast.BinOp(left=ast.Name(id=j.id, ctx=ast.Load()), op=ast.Add(), right=ast.Constant(1)), ctx=ast.Load())
            self._unify(target.elts[0], xa, binds)
            self._unify(target.elts[1], xb, binds)
            return [Ctx("for", target=j, iter=rng)], binds
        if isinstance(it, ast.Call) and dotted(it.func) in ("itertools.product", "product") and not it.keywords and len(it.args) >= 1 and \
                isinstance(target, (ast.Tuple, ast.List)) and len(target.elts) == len(it.args):
            out = []
            for t_, a_ in zip(target.elts, it.args):
                sub_ctx, sub_b = self._domain(t_, a_, {})
                out.extend(sub_ctx)
                binds.update(sub_b)
            return out, binds
        if isinstance(it, ast.Call) and isinstance(it.func, ast.Name) and it.func.id == "enumerate" and len(it.args) == 1 and not it.keywords and \
                isinstance(target, ast.Tuple) and len(target.elts) == 2 and isinstance(target.elts[0], ast.Name):
            seq = it.args[0]
            if isinstance(seq, (ast.Name, ast.Attribute, ast.Subscript)):
                j = target.elts[0]
                rng = ast.Call(func=ast.Name(id="range", ctx=ast.Load()), args=[ast.Call(func=ast.Name(id="len", ctx=ast.Load()), args=[copy.deepcopy(seq)], keywords=[])], keywords=[])
                item = ast.Subscript(value=copy.deepcopy(seq), slice=ast.Name(id=j.id, ctx=ast.Load()), ctx=ast.Load())
                self._unify(target.elts[1], item, binds)
                return [Ctx("for", target=j, iter=rng)], binds
        if isinstance(it, ast.Call) and dotted(it.func) == "enumerate" and len(it.args) == 1 and not it.keywords and \
                isinstance(it.args[0], ast.Call) and dotted(it.args[0].func) == "zip" and not it.args[0].keywords and it.args[0].args and \
                isinstance(target, ast.Tuple) and len(target.elts) == 2 and isinstance(target.elts[0], ast.Name):
            # for j, (a, b) in enumerate(zip(A, B))  ==  for j in range(len(A)) with a = A[j], b = B[j] -- when A and B are
            # known to have the same length (the same source list, or an equal-length fact of the function)
            seqs = it.args[0].args
            reps = {self._len_rep(x) for x in seqs}
            if None not in reps and len(reps) == 1:
                j = target.elts[0]
                rep = ast.parse(next(iter(reps)), mode="eval").body
                rng = ast.Call(func=ast.Name(id="range", ctx=ast.Load()), args=[ast.Call(func=ast.Name(id="len", ctx=ast.Load()), args=[rep], keywords=[])], keywords=[])
                items = ast.Tuple(elts=[ast.Subscript(value=copy.deepcopy(x), slice=ast.Name(id=j.id, ctx=ast.Load()), ctx=ast.Load()) for x in seqs], ctx=ast.Load())
                self._unify(target.elts[1], items, binds)
                return [Ctx("for", target=j, iter=rng)], binds
        if isinstance(it, ast.Call) and isinstance(it.func, ast.Attribute) and it.func.attr == "items" and not it.args and \
                isinstance(target, ast.Tuple) and len(target.elts) == 2 and isinstance(it.func.value, (ast.Name, ast.Attribute)):
            k = target.elts[0]
            item = ast.Subscript(value=copy.deepcopy(it.func.value), slice=copy.deepcopy(k), ctx=ast.Load())
            if isinstance(k, ast.Tuple):
                item = ast.Subscript(value=copy.deepcopy(it.func.value), slice=ast.Tuple(elts=[copy.deepcopy(x) for x in k.elts], ctx=ast.Load()), ctx=ast.Load())
            self._unify(target.elts[1], item, binds)
            return [Ctx("for", target=k, iter=it.func.value)], binds
        if isinstance(it, ast.Call) and dotted(it.func) == "range" and len(it.args) == 1 and not it.keywords and \
                isinstance(it.args[0], ast.Call) and dotted(it.args[0].func) == "len" and len(it.args[0].args) == 1:
            rep = self._len_rep(it.args[0].args[0])
            if rep is not None:
                it = copy.deepcopy(it)
                it.args[0].args[0] = ast.parse(rep, mode="eval").body
        return [Ctx("for", target=target, iter=it)], binds

    def _len_rep(self, seq: ast.AST) -> Optional[str]:
        """a name for len(seq): the sequence a one-generator, unfiltered list comprehension runs over has the same length;
        arguments in one equal-length class of the function are named by the class's smallest member"""
        for _ in range(6):
            if isinstance(seq, ast.ListComp) and len(seq.generators) == 1 and not seq.generators[0].ifs:
                seq = seq.generators[0].iter
                continue
            if isinstance(seq, ast.Call) and dotted(seq.func) in ("list", "tuple") and len(seq.args) == 1 and not seq.keywords and \
                    isinstance(seq.args[0], (ast.Name, ast.Attribute, ast.ListComp)):
                seq = seq.args[0]
                continue
            break
        if not isinstance(seq, (ast.Name, ast.Attribute)):
            return None
        d = dotted(seq)
        if d is None:
            return None
        for c in getattr(self.cur, "len_classes", []):
            if d in c:
                return min(c)
        return d

    def _unify(self, target: ast.AST, value: ast.AST, binds: Dict[str, ast.AST]):
        if isinstance(target, ast.Name):
            if not (isinstance(value, ast.Name) and value.id == target.id):
                binds[target.id] = value
        elif isinstance(target, (ast.Tuple, ast.List)) and isinstance(value, (ast.Tuple, ast.List)) and len(target.elts) == len(value.elts):
            for t, v in zip(target.elts, value.elts):
                self._unify(t, v, binds)
        elif isinstance(target, (ast.Tuple, ast.List)):
            for i, t in enumerate(target.elts):
                self._unify(t, ast.Subscript(value=copy.deepcopy(value), slice=ast.Constant(i), ctx=ast.Load()), binds)

    def _expand_comprehensions(self, e: ast.AST, env) -> ast.AST:
        """the same domain canonicalisation for the generators of comprehensions inside an expression"""
        ex = self

        class X(ast.NodeTransformer):
            def _comp(self, node):
                node = self.generic_visit(node)
                gens: List[ast.comprehension] = []
                binds: Dict[str, ast.AST] = {}
                changed = False
                for g in node.generators:
                    g_iter = subst(g.iter, binds)
                    ctxs, b = ex._domain(g.target, g_iter, {k: v for k, v in env.items() if k.startswith("self.")})
                    simple = len(ctxs) == 1 and ctxs[0].kind == "for" and not b and ctxs[0].target is g.target and ast.dump(ctxs[0].iter) == ast.dump(g_iter)
                    if simple:
                        gens.append(ast.comprehension(target=g.target, iter=g_iter, ifs=[subst(c, binds) for c in g.ifs], is_async=0))
                        continue
                    changed = True
                    binds.update(b)
                    pend: List[ast.AST] = []
                    for c in ctxs:
                        if c.kind == "for":
                            gens.append(ast.comprehension(target=c.target, iter=c.iter, ifs=[], is_async=0))
                        else:
                            t = c.test if c.pol else ast.UnaryOp(op=ast.Not(), operand=c.test)
                            if gens:
                                gens[-1].ifs.append(t)
                            else:
                                pend.append(t)
                    if gens:
                        gens[-1].ifs.extend(pend + [subst(c, binds) for c in g.ifs])
                if not changed:
                    return node
                node = copy.copy(node)
                node.generators = gens
                for fld in ("elt", "key", "value"):
                    if hasattr(node, fld):
                        setattr(node, fld, _tuple_index_simplify(subst(getattr(node, fld), binds)))
                return node
            visit_GeneratorExp = _comp
            visit_ListComp = _comp
            visit_SetComp = _comp
        return X().visit(e)

    # ------------------------------------------------------------------ effects
    def _record_calls(self, expr: ast.AST, ctx, env, target=None):
        for c in [n for n in ast.walk(expr) if isinstance(n, ast.Call)]:
            k = self._is_solver_call(c, env)
            if k is None:
                continue
            args = {}
            params = PARAMS[k]
            for i, a in enumerate(c.args):
                if i < len(params):
                    args[params[i]] = self._expr(a, env)
            for kw in c.keywords:
                if kw.arg:
                    args[kw.arg] = self._expr(kw.value, env)
            self.order += 1
            eff = Effect(k, c, list(ctx), args, target=target, func=self.cur.func, order=self.order)
            eff.builders = self.cur.builders
            eff.fn_body = self.cur.body
            self.effects.append(eff)

    def _try_inline(self, call: ast.Call, ctx, env) -> Optional[Dict[str, ast.AST]]:
        r = self._resolve_self_method(call)
        if r is None or len(self.stack) > self.MAX_DEPTH:
            return None
        owner, callee = r
        if callee.name in self.stack or callee.name.startswith("__"):
            return None
        if self.no_inline is not None and self.no_inline(owner.name, callee.name):
            return None
        if not self._has_effects_transitively(callee, set()):
            return None
        b = self._bind(callee, call, env)
        if b is None:
            return None
        env_c = dict(b)
        env_c.update({k: v for k, v in env.items() if k.startswith("self.")})
        saved = self.cur
        self.cur = _FnCtx(callee)
        self.stack.append(callee.name)
        try:
            out = self._block(self.cur.body, ctx, env_c)
        finally:
            self.stack.pop()
            self.cur = saved
        return {k: v for k, v in out.items() if k.startswith("self.")}

    def _has_effects_transitively(self, f: FuncInfo, seen: Set[str], depth=0) -> bool:
        if f.qualname in seen or depth > self.MAX_DEPTH:
            return False
        seen.add(f.qualname)
        if has_direct_effects(f.node):
            return True
        for c in calls_in(f.node):
            r = self._resolve_self_method(c)
            if r and self._has_effects_transitively(r[1], seen, depth + 1):
                return True
        return False

    def _attrs_written(self, f: FuncInfo, seen: Set[str], depth=0) -> Optional[Set[str]]:
        """self attributes a method may (re)bind or mutate, transitively through self calls; None = unknown"""
        if f.qualname in seen:
            return set()
        if depth > 4:
            return None
        seen.add(f.qualname)
        out: Set[str] = set()
        for n in walk_no_nested(f.node):
            tg = []
            if isinstance(n, ast.Assign):
                tg = n.targets
            elif isinstance(n, (ast.AugAssign, ast.AnnAssign)):
                tg = [n.target]
            elif isinstance(n, ast.Delete):
                tg = n.targets
            for t in tg:
                for x in ast.walk(t):
                    d = dotted(x) if isinstance(x, ast.Attribute) else None
                    if d and d.startswith("self."):
                        out.add(".".join(d.split(".")[:2]))
            if isinstance(n, ast.Call) and isinstance(n.func, ast.Attribute):
                d = dotted(n.func.value) or ""
                if d.startswith("self.") and n.func.attr in ("add", "append", "extend", "update", "insert", "remove", "discard", "pop", "clear", "setdefault", "sort", "reverse"):
                    out.add(".".join(d.split(".")[:2]))
                if d == "self":
                    r = self._resolve_self_method(n)
                    if r is None:
                        return None
                    sub = self._attrs_written(r[1], seen, depth + 1)
                    if sub is None:
                        return None
                    out |= sub
                if any(isinstance(a, ast.Name) and a.id == "self" for a in n.args):
                    return None
        return out

    def _kill_self_on_calls(self, node: ast.AST, env):
        """a call of another method of self may re-assign attributes: forget the definitions it may write"""
        for c in ast.walk(node):
            if isinstance(c, ast.Call) and isinstance(c.func, ast.Attribute):
                d = dotted(c.func.value) or ""
                if d == "self":
                    r = self._resolve_self_method(c)
                    w = self._attrs_written(r[1], set()) if r is not None else None
                    if w is None:
                        return {k: v for k, v in env.items() if not k.startswith("self.")}
                    env = {k: v for k, v in env.items() if k not in w}
                    continue
                if d.startswith("self.") and d in env and c.func.attr in ("add", "append", "extend", "update", "insert", "remove", "discard", "pop", "clear", "setdefault", "sort", "reverse"):
                    env = {k: v for k, v in env.items() if k != d}
        return env

    def _block(self, stmts: List[ast.stmt], ctx: List[Ctx], env: Dict[str, ast.AST]) -> Dict[str, ast.AST]:
        ctx = list(ctx)
        for st in stmts:
            if isinstance(st, ast.Assign):
                tgt_name = None
                if len(st.targets) == 1:
                    tgt_name = dotted(st.targets[0])
                else:
                    # chained assignment  local = self.family = <value>: the family is the self attribute, the local its alias
                    selfs = [dotted(t) for t in st.targets if (dotted(t) or "").startswith("self.")]
                    tgt_name = selfs[0] if selfs else dotted(st.targets[0])
                self._record_calls(st.value, ctx, env, target=tgt_name)
                inl = self._try_inline(st.value, ctx, env) if isinstance(st.value, ast.Call) else None
                # flag stores
                for t in st.targets:
                    if isinstance(t, ast.Subscript):
                        base = dotted(t.value) or ""
                        if base.startswith("self.") and base[5:] in FLAG_ATTRS:
                            self.order += 1
                            eff = Effect("flag", st, list(ctx), {"index": self._expr(t.slice, env), "value": self._expr(st.value, env)},
                                         target=base[5:], func=self.cur.func, order=self.order)
                            eff.builders = self.cur.builders
                            eff.fn_body = self.cur.body
                            self.effects.append(eff)
                        if base.startswith("self.") and base in env:
                            env = {k: v for k, v in env.items() if k != base}
                pure = isinstance(st.value, SUBSTITUTABLE) and not any(self._is_solver_call(c, env) for c in ast.walk(st.value) if isinstance(c, ast.Call))
                chained_alias = len(st.targets) > 1 and tgt_name and tgt_name.startswith("self.")
                if inl is not None:
                    env = {k: v for k, v in env.items() if not k.startswith("self.")}
                    env.update(inl)
                else:
                    env = self._kill_self_on_calls(st.value, env)
                if len(st.targets) == 1 and isinstance(st.targets[0], ast.Name) and isinstance(st.value, ast.Call) and dotted(st.value.func) in ("float", "int") and \
                        len(st.value.args) == 1 and isinstance(st.value.args[0], ast.Name) and st.value.args[0].id == st.targets[0].id and st.targets[0].id not in env:
                    pass      # `x = float(x)` on a parameter: the same number as a Python number (`lb, ub = float(lb), float(ub)` is left alone likewise)
                elif len(st.targets) == 1 and isinstance(st.targets[0], ast.Name) and st.targets[0].id not in self.mutated and pure and inl is None:
                    env = dict(env)
                    env[st.targets[0].id] = _tuple_index_simplify(self._inline_pure(subst(st.value, env), env))
                elif len(st.targets) == 1 and tgt_name and tgt_name.startswith("self.") and tgt_name.count(".") == 1 and pure and inl is None:
                    env = dict(env)
                    env[tgt_name] = subst(st.value, env)
                else:
                    killed = _assigned_names([st])
                    env = {k: v for k, v in env.items() if k not in killed and not (tgt_name and k == tgt_name)}
                if chained_alias:
                    env = dict(env)
                    for t in st.targets:
                        if isinstance(t, ast.Name) and t.id not in self.mutated:
                            env[t.id] = ast.parse(tgt_name, mode="eval").body
            elif isinstance(st, (ast.AugAssign, ast.AnnAssign)):
                if getattr(st, "value", None) is not None:
                    self._record_calls(st.value, ctx, env)
                d = dotted(st.target) or ""
                env = {k: v for k, v in env.items() if k not in _assigned_names([st]) and k != d}
            elif isinstance(st, ast.Expr):
                self._record_calls(st.value, ctx, env)
                inl = self._try_inline(st.value, ctx, env) if isinstance(st.value, ast.Call) else None
                if inl is not None:
                    env = {k: v for k, v in env.items() if not k.startswith("self.")}
                    env.update(inl)
                else:
                    env = self._kill_self_on_calls(st.value, env)
            elif isinstance(st, ast.If):
                test = self._expr(st.test, env)
                e1 = self._block(st.body, ctx + [Ctx("if", test=test, pol=True)], dict(env))
                e2 = self._block(st.orelse, ctx + [Ctx("if", test=test, pol=False)], dict(env))
                j1, j2 = _ends_in_jump(st.body), (_ends_in_jump(st.orelse) if st.orelse else False)
                if j1 and not j2 and isinstance(st.body[-1], ast.Raise):
                    env = e2          # validation (`if bad: raise`): not part of the formulation context
                elif j1 and not j2:
                    ctx = ctx + [Ctx("if", test=test, pol=False)]
                    env = e2
                elif j2 and not j1:
                    ctx = ctx + [Ctx("if", test=test, pol=True)]
                    env = e1
                else:
                    merged = {}
                    for k in set(e1) | set(e2):
                        if k in e1 and k in e2:
                            if ast.dump(e1[k]) == ast.dump(e2[k]):
                                merged[k] = e1[k]
                            else:
                                merged[k] = ast.IfExp(test=copy.deepcopy(test), body=e1[k], orelse=e2[k])
                    env = merged
            elif isinstance(st, (ast.For, ast.AsyncFor)):
                assigned = _assigned_names(st.body) | _assigned_names([ast.Expr(value=st.target)])
                for n in ast.walk(st.target):
                    if isinstance(n, ast.Name):
                        assigned.add(n.id)
                attr_assigned = {dotted(t) for s_ in st.body for n in ast.walk(s_) if isinstance(n, ast.Assign) for t in n.targets if dotted(t)}
                env_in = {k: v for k, v in env.items() if k not in assigned and k not in attr_assigned}
                dctx, binds = self._domain(st.target, st.iter, env)
                body_env = dict(env_in)
                body_env.update(binds)
                self._block(st.body, ctx + dctx, body_env)
                env = self._kill_self_on_calls(ast.Module(body=st.body, type_ignores=[]), env_in)
            elif isinstance(st, ast.While):
                assigned = _assigned_names(st.body)
                env_in = {k: v for k, v in env.items() if k not in assigned}
                self._block(st.body, ctx + [Ctx("if", test=self._expr(st.test, env_in), pol=True)], dict(env_in))
                env = self._kill_self_on_calls(ast.Module(body=st.body, type_ignores=[]), env_in)
            elif isinstance(st, (ast.With, ast.AsyncWith)):
                env = self._block(st.body, ctx, env)
            elif isinstance(st, ast.Try):
                env = self._block(st.body, ctx, env)
                for h in st.handlers:
                    self._block(h.body, ctx, dict(env))
                env = self._block(st.finalbody, ctx, env)
            elif isinstance(st, ast.Return):
                if st.value is not None:
                    self._record_calls(st.value, ctx, env)
            # other statements: no effect
        return env


def extract(prog: Program, func: FuncInfo, solver_names=("self.solver", "self"), cls: Optional[ClassInfo] = None, no_inline=None) -> List[Effect]:
    return Extractor(prog, func, solver_names, cls=cls, no_inline=no_inline).run()


# ------------------------------------------------------------------------------------- normal forms
class Renamer(ast.NodeTransformer):
    """renames free names; names bound by a comprehension inside the expression shadow the mapping there"""

    def __init__(self, mapping: Dict[str, str]):
        self.m = mapping

    def visit_Name(self, node):
        if node.id in self.m:
            return ast.copy_location(ast.Name(id=self.m[node.id], ctx=node.ctx), node)
        return node

    def _comp(self, node):
        bound = set()
        for g in node.generators:
            bound |= {n.id for n in ast.walk(g.target) if isinstance(n, ast.Name)}
        if not (bound & set(self.m)):
            return self.generic_visit(node)
        inner = Renamer({k: v for k, v in self.m.items() if k not in bound})
        seen: Set[str] = set()
        for i, g in enumerate(node.generators):
            # an iterable is evaluated before its own target (and later targets) are bound
            sub = Renamer({k: v for k, v in self.m.items() if k not in seen})
            g.iter = sub.visit(g.iter)
            seen |= {n.id for n in ast.walk(g.target) if isinstance(n, ast.Name)}
            sub2 = Renamer({k: v for k, v in self.m.items() if k not in seen})
            g.ifs = [sub2.visit(c) for c in g.ifs]
        for fld in ("elt", "key", "value"):
            if hasattr(node, fld):
                setattr(node, fld, inner.visit(getattr(node, fld)))
        return node

    visit_GeneratorExp = _comp
    visit_ListComp = _comp
    visit_SetComp = _comp
    visit_DictComp = _comp


EDGE_ITERS = re.compile(r"^(?P<g>[\w.]+)\.edges(\(\)|\(data=True\))?$")
NODE_ITERS = re.compile(r"^(?P<g>[\w.]+)\.nodes(\(\))?$")


def canon_iter(it: ast.AST) -> str:
    t = norm(it)
    m = EDGE_ITERS.match(t)
    if m:
        return f"{m.group('g')}.edges"
    m = NODE_ITERS.match(t)
    if m:
        return f"{m.group('g')}.nodes"
    return t


class EdgeAttrCanon(ast.NodeTransformer):
    """data[X] (data = third element of an edges(data=True) binder) / G[u][v][X] / G.edges[u, v][X]  ->  EDGEATTR(G,u,v)[X]"""

    def __init__(self, data_vars: Dict[str, Tuple[str, str, str]]):
        self.data_vars = data_vars      # data name -> (graph text, u name, v name)

    def visit_Name(self, node):
        if isinstance(node.ctx, ast.Load) and node.id in self.data_vars:
            g, a, b = self.data_vars[node.id]
            return ast.parse(f"EDGEATTR({g}, {a}, {b})", mode="eval").body
        return node

    def visit_Subscript(self, node):
        node = self.generic_visit(node)
        v = node.value
        if isinstance(v, ast.Name) and v.id in self.data_vars:
            g, a, b = self.data_vars[v.id]
            call = ast.parse(f"EDGEATTR({g}, {a}, {b})", mode="eval").body
            return ast.Subscript(value=call, slice=node.slice, ctx=node.ctx)
        # G[u][v][X]
        if isinstance(v, ast.Subscript) and isinstance(v.value, ast.Subscript) and dotted(v.value.value):
            g = dotted(v.value.value)
            if g.endswith("G") or g.endswith("graph"):
                call = ast.Call(func=ast.Name(id="EDGEATTR", ctx=ast.Load()),
                                args=[v.value.value, v.value.slice, v.slice], keywords=[])
                return ast.Subscript(value=call, slice=node.slice, ctx=node.ctx)
        # G.edges[u, v][X] / G.edges[(u, v)][X] / G.edges[e][X]
        if isinstance(v, ast.Subscript) and isinstance(v.value, ast.Attribute) and v.value.attr == "edges":
            sl = v.slice
            if isinstance(sl, ast.Tuple) and len(sl.elts) == 2:
                call = ast.Call(func=ast.Name(id="EDGEATTR", ctx=ast.Load()), args=[v.value.value, sl.elts[0], sl.elts[1]], keywords=[])
                return ast.Subscript(value=call, slice=node.slice, ctx=node.ctx)
        return node

    def visit_Call(self, node):
        node = self.generic_visit(node)
        # data.get(X, d) -> EDGEATTR(...).get(X, d) handled by Name replacement below
        if isinstance(node.func, ast.Attribute) and isinstance(node.func.value, ast.Name) and node.func.value.id in self.data_vars:
            g, a, b = self.data_vars[node.func.value.id]
            node.func.value = ast.parse(f"EDGEATTR({g}, {a}, {b})", mode="eval").body
        elif isinstance(node.func, ast.Attribute) and node.func.attr == "get":
            v = node.func.value
            # G[u][v].get(X, d)
            if isinstance(v, ast.Subscript) and isinstance(v.value, ast.Subscript) and dotted(v.value.value) and \
                    (dotted(v.value.value).endswith("G") or dotted(v.value.value).endswith("graph")):
                node.func.value = ast.Call(func=ast.Name(id="EDGEATTR", ctx=ast.Load()), args=[v.value.value, v.value.slice, v.slice], keywords=[])
            # G.edges[u, v].get(X, d)
            elif isinstance(v, ast.Subscript) and isinstance(v.value, ast.Attribute) and v.value.attr == "edges" and isinstance(v.slice, ast.Tuple) and len(v.slice.elts) == 2:
                node.func.value = ast.Call(func=ast.Name(id="EDGEATTR", ctx=ast.Load()), args=[v.value.value, v.slice.elts[0], v.slice.elts[1]], keywords=[])
        return node


class GetCanon(ast.NodeTransformer):
    """d[k] if k in d else x  ->  d.get(k, x)      (and the `not in` mirror image)"""

    def visit_IfExp(self, node):
        node = self.generic_visit(node)
        t = node.test
        pos, neg = node.body, node.orelse
        if isinstance(t, ast.UnaryOp) and isinstance(t.op, ast.Not):
            t = t.operand
            pos, neg = neg, pos
        if isinstance(t, ast.Compare) and len(t.ops) == 1 and isinstance(t.ops[0], (ast.In, ast.NotIn)):
            if isinstance(t.ops[0], ast.NotIn):
                pos, neg = neg, pos
            k, d = t.left, t.comparators[0]
            if isinstance(pos, ast.Subscript) and ast.dump(pos.value) == ast.dump(d) and ast.dump(pos.slice) == ast.dump(k):
                return ast.Call(func=ast.Attribute(value=d, attr="get", ctx=ast.Load()), args=[k, neg], keywords=[])
        return node


class ComprehensionEdges(ast.NodeTransformer):
    """comprehension generators `u, v, data in G.edges(data=True)` -> `u, v in G.edges` with data[...] -> EDGEATTR(G, u, v)[...]"""

    def _comp(self, node):
        node = self.generic_visit(node)
        data_vars: Dict[str, Tuple[str, str, str]] = {}
        for g in node.generators:
            it = norm(g.iter)
            m = re.match(r"^([\w.]+)\.edges\(data=True\)$", it)
            if m and isinstance(g.target, ast.Tuple) and len(g.target.elts) == 3 and all(isinstance(x, ast.Name) for x in g.target.elts):
                u, v, d = [x.id for x in g.target.elts]
                data_vars[d] = (m.group(1), u, v)
                g.target = ast.Tuple(elts=g.target.elts[:2], ctx=ast.Store())
                g.iter = ast.parse(f"{m.group(1)}.edges", mode="eval").body
            elif re.match(r"^([\w.]+)\.edges\(\)$", it):
                g.iter = g.iter.func
        if data_vars:
            ec = EdgeAttrCanon(data_vars)
            for fld in ("elt", "key", "value"):
                if hasattr(node, fld):
                    setattr(node, fld, ec.visit(getattr(node, fld)))
            for g in node.generators:
                g.ifs = [ec.visit(c) for c in g.ifs]
        return node

    visit_GeneratorExp = _comp
    visit_ListComp = _comp
    visit_SetComp = _comp
    visit_DictComp = _comp


class ProductToComp(ast.NodeTransformer):
    """itertools.product(A, B, ...) (possibly wrapped in list()) -> [(p0, p1, ...) for p0 in A for p1 in B ...]"""

    def visit_Call(self, node):
        node = self.generic_visit(node)
        inner = node
        if isinstance(node.func, ast.Name) and node.func.id in ("list", "tuple") and len(node.args) == 1 and not node.keywords and isinstance(node.args[0], ast.ListComp):
            return node.args[0]
        if isinstance(node.func, ast.Name) and node.func.id in ("list", "tuple") and len(node.args) == 1 and not node.keywords and isinstance(node.args[0], ast.Call):
            inner = node.args[0]
        if isinstance(inner, ast.Call) and dotted(inner.func) in ("itertools.product", "product") and not inner.keywords and inner.args and \
                not any(isinstance(a, ast.Starred) for a in inner.args):
            names = [f"prod{i}__v" for i in range(len(inner.args))]
            gens = [ast.comprehension(target=ast.Name(id=n, ctx=ast.Store()), iter=a, ifs=[], is_async=0) for n, a in zip(names, inner.args)]
            return ast.ListComp(elt=ast.Tuple(elts=[ast.Name(id=n, ctx=ast.Load()) for n in names], ctx=ast.Load()), generators=gens)
        return node


def _pairs_source(it: ast.AST) -> Optional[ast.AST]:
    """X for the iterables zip(X, X[1:]) and zip(X[:-1], X[1:]) (consecutive pairs of X), else None"""
    if isinstance(it, ast.Call) and dotted(it.func) == "zip" and len(it.args) == 2 and not it.keywords:
        a, b = it.args
        if isinstance(b, ast.Subscript) and isinstance(b.slice, ast.Slice) and b.slice.upper is None and b.slice.step is None and \
                isinstance(b.slice.lower, ast.Constant) and b.slice.lower.value == 1:
            X = b.value
            if ast.dump(a) == ast.dump(X):
                return X
            if isinstance(a, ast.Subscript) and isinstance(a.slice, ast.Slice) and a.slice.lower is None and a.slice.step is None and \
                    isinstance(a.slice.upper, ast.UnaryOp) and isinstance(a.slice.upper.op, ast.USub) and isinstance(a.slice.upper.operand, ast.Constant) and \
                    a.slice.upper.operand.value == 1 and ast.dump(a.value) == ast.dump(X):
                return X
    return None


class PairsToIndex(ast.NodeTransformer):
    """comprehension generators `for a, b in zip(X, X[1:])` -> `for j in range(len(X) - 1)` with a = X[j], b = X[j + 1]"""

    def _comp(self, node):
        node = self.generic_visit(node)
        for gi, g in enumerate(node.generators):
            X = _pairs_source(g.iter)
            if X is None or not ((isinstance(g.target, ast.Tuple) and len(g.target.elts) == 2) or isinstance(g.target, ast.Name)):
                continue
            j = _fresh("pair")
            xa = ast.Subscript(value=copy.deepcopy(X), slice=ast.Name(id=j, ctx=ast.Load()), ctx=ast.Load())
            xb = ast.Subscript(value=copy.deepcopy(X), slice=ast.BinOp(left=ast.Name(id=j, ctx=ast.Load()), op=ast.Add(), right=ast.Constant(1)), ctx=ast.Load())
            env: Dict[str, ast.AST] = {}
            if isinstance(g.target, ast.Name):
                env[g.target.id] = ast.Tuple(elts=[xa, xb], ctx=ast.Load())
            for t_, v_ in (zip(g.target.elts, (xa, xb)) if isinstance(g.target, ast.Tuple) else []):
                if isinstance(t_, ast.Name):
                    env[t_.id] = v_
                elif isinstance(t_, (ast.Tuple, ast.List)):
                    for k_, e_ in enumerate(t_.elts):
                        if isinstance(e_, ast.Name):
                            env[e_.id] = ast.Subscript(value=copy.deepcopy(v_), slice=ast.Constant(k_), ctx=ast.Load())
            g.target = ast.Name(id=j, ctx=ast.Store())
            g.iter = ast.parse("range(len(X) - 1)", mode="eval").body
            g.iter.args[0].left.args[0] = copy.deepcopy(X)
            g.ifs = [subst(c, env) for c in g.ifs]
            for g2 in node.generators[gi + 1:]:
                g2.iter = subst(g2.iter, env)
                g2.ifs = [subst(c, env) for c in g2.ifs]
            for fld in ("elt", "key", "value"):
                if hasattr(node, fld):
                    setattr(node, fld, subst(getattr(node, fld), env))
        return node
    visit_GeneratorExp = _comp
    visit_ListComp = _comp
    visit_SetComp = _comp
    visit_DictComp = _comp


class _IterListToSet(ast.NodeTransformer):
    def _comp(self, node):
        node = self.generic_visit(node)
        for g in node.generators:
            if isinstance(g.iter, ast.ListComp):
                g.iter = ast.SetComp(elt=g.iter.elt, generators=g.iter.generators)
            elif isinstance(g.iter, ast.Call) and isinstance(g.iter.func, ast.Name) and g.iter.func.id in ("list", "set", "sorted", "tuple") and \
                    len(g.iter.args) == 1 and not g.iter.keywords and isinstance(g.iter.args[0], (ast.GeneratorExp, ast.ListComp, ast.SetComp)):
                g.iter = ast.SetComp(elt=g.iter.args[0].elt, generators=g.iter.args[0].generators)
        return node
    visit_GeneratorExp = _comp
    visit_ListComp = _comp
    visit_SetComp = _comp
    visit_DictComp = _comp


def canon_expr(e: ast.AST) -> ast.AST:
    """value-level canonical form shared by the rules: edge-attribute idioms, dict.get idiom, comprehension variables"""
    x = copy.deepcopy(e)
    x = ProductToComp().visit(x)
    x = PairsToIndex().visit(x)
    x = _IterListToSet().visit(x)
    x = ComprehensionEdges().visit(x)
    x = EdgeAttrCanon({}).visit(x)
    x = GetCanon().visit(x)
    x = _tuple_index_simplify(x)
    x = _rename_comprehensions(x)
    ast.fix_missing_locations(x)
    return x


class ParenTuple(ast.NodeTransformer):
    """x[(i)] == x[i]; x[(a, b)] == x[a, b] already identical in the AST."""
    pass


@dataclass
class LinNF:
    rel: str                              # '==', '>=', 'obj-min', 'obj-max', 'expr'
    terms: Dict[str, Poly]
    const: Poly
    opaque: List[str] = field(default_factory=list)

    def _key(self) -> str:
        parts = [self.rel]
        for k in sorted(self.terms):
            parts.append(f"{k} * ({self.terms[k]!r})")
        parts.append(f"const ({self.const!r})")
        if self.opaque:
            parts.append("OPAQUE " + " | ".join(sorted(self.opaque)))
        return " ; ".join(parts)

    def key(self) -> str:
        """canonical text; an equation and its negation have the same key (the sign is chosen canonically)"""
        if self.rel == "==":
            a, b = self._key(), self.negated()._key()
            return min(a, b)
        return self._key()

    def negated(self) -> "LinNF":
        return LinNF(self.rel, {k: -v for k, v in self.terms.items()}, -self.const, list(self.opaque))

    def equivalent(self, o: "LinNF") -> bool:
        if self.rel != o.rel or sorted(self.opaque) != sorted(o.opaque):
            return False
        same = self.terms == o.terms and self.const == o.const
        if same:
            return True
        if self.rel == "==":
            n = o.negated()
            return self.terms == n.terms and self.const == n.const
        return False


class Normalizer:
    def __init__(self, var_names: Set[str]):
        self.var_names = set(var_names)

    # ---- variables
    def is_var(self, e: ast.AST) -> bool:
        if isinstance(e, ast.Subscript):
            d = dotted(e.value)
            return d is not None and d in self.var_names
        if isinstance(e, ast.Name):
            return e.id in self.var_names
        return False

    def has_var(self, e: ast.AST) -> bool:
        return any(self.is_var(n) for n in ast.walk(e))

    # ---- linear expression
    def lin(self, e: ast.AST, binders: Tuple[str, ...], guards: Tuple[str, ...], out_terms, out_const, opaque, scale: Poly):
        if self.is_var(e):
            key = self._term_key(binders, guards, e)
            out_terms[key] = out_terms.get(key, Poly()) + scale
            return
        if isinstance(e, ast.Call) and (dotted(e.func) or "").split(".")[-1] in SUM_FUNCS and len(e.args) >= 1:
            a = e.args[0]
            if isinstance(a, (ast.GeneratorExp, ast.ListComp)):
                bs = []
                for g in a.generators:
                    from . import boolnf as _B
                    conds = _B.key(_B.mk_and([_B.parse(c) for c in g.ifs])) if g.ifs else ""
                    bs.append(f"{norm(g.target)} in {canon_iter(g.iter)}" + (f" if {conds}" if conds else ""))
                self.lin(a.elt, binders + tuple(bs), guards, out_terms, out_const, opaque, scale)
                return
            if isinstance(a, (ast.List, ast.Tuple)):
                for el in a.elts:
                    self.lin(el, binders, guards, out_terms, out_const, opaque, scale)
                return
        if isinstance(e, ast.BinOp):
            if isinstance(e.op, ast.Add):
                self.lin(e.left, binders, guards, out_terms, out_const, opaque, scale)
                self.lin(e.right, binders, guards, out_terms, out_const, opaque, scale)
                return
            if isinstance(e.op, ast.Sub):
                self.lin(e.left, binders, guards, out_terms, out_const, opaque, scale)
                self.lin(e.right, binders, guards, out_terms, out_const, opaque, -scale)
                return
            if isinstance(e.op, ast.Mult):
                lv, rv = self.has_var(e.left), self.has_var(e.right)
                if lv and not rv:
                    self.lin(e.left, binders, guards, out_terms, out_const, opaque, scale * self._coef(e.right, binders))
                    return
                if rv and not lv:
                    self.lin(e.right, binders, guards, out_terms, out_const, opaque, scale * self._coef(e.left, binders))
                    return
                if lv and rv:
                    opaque.append("nonlinear: " + norm(e))
                    return
            if isinstance(e.op, ast.Div) and self.has_var(e.left) and not self.has_var(e.right):
                c = self._coef(e.right, binders).const_value()
                if c:
                    self.lin(e.left, binders, guards, out_terms, out_const, opaque, scale.scale(1 / c))
                    return
        if isinstance(e, ast.UnaryOp) and isinstance(e.op, ast.USub):
            self.lin(e.operand, binders, guards, out_terms, out_const, opaque, -scale)
            return
        if isinstance(e, ast.UnaryOp) and isinstance(e.op, ast.UAdd):
            self.lin(e.operand, binders, guards, out_terms, out_const, opaque, scale)
            return
        if isinstance(e, ast.IfExp) and (self.has_var(e.body) or self.has_var(e.orelse)):
            simp = self._simplify_unit_ifexp(e)
            if simp is not None:
                self.lin(simp, binders, guards, out_terms, out_const, opaque, scale)
                return
            from . import boolnf as _B
            ft = _B.parse(e.test)
            self.lin(e.body, binders, guards + (_B.key(ft),), out_terms, out_const, opaque, scale)
            self.lin(e.orelse, binders, guards + (_B.key(_B.mk_not(ft)),), out_terms, out_const, opaque, scale)
            return
        if self.has_var(e):
            opaque.append("unsupported: " + norm(e)[:80])
            return
        # constant term (under binders it is a Sigma of a constant: keep as an atom)
        c = self._coef(e, binders)
        if binders:
            c = c * Poly.atom("SUM[" + "; ".join(sorted(binders)) + "]")
        if guards:
            c = c * Poly.atom("IF[" + " & ".join(sorted(guards)) + "]")
        out_const.append(c * scale)

    def _simplify_unit_ifexp(self, e: ast.IfExp) -> Optional[ast.AST]:
        """X * A if A != 1 else X   ==   X * A      (and the A == 1 mirror image)"""
        t = e.test
        if isinstance(t, ast.Compare) and len(t.ops) == 1 and isinstance(t.comparators[0], ast.Constant) and t.comparators[0].value == 1:
            a = norm(t.left)
            prod, plain = (e.body, e.orelse) if isinstance(t.ops[0], ast.NotEq) else ((e.orelse, e.body) if isinstance(t.ops[0], ast.Eq) else (None, None))
            if prod is not None and isinstance(prod, ast.BinOp) and isinstance(prod.op, ast.Mult):
                if norm(prod.right) == a and norm(prod.left) == norm(plain):
                    return prod
                if norm(prod.left) == a and norm(prod.right) == norm(plain):
                    return prod
        return None

    def _coef(self, e: ast.AST, binders) -> Poly:
        return to_poly(e)

    def _term_key(self, binders, guards, var: ast.AST) -> str:
        v = norm(var)
        v = re.sub(r"\[\((\w+)\)\]", r"[\1]", v)        # x[(i)] -> x[i]
        s = ""
        if binders:
            s += "SUM[" + "; ".join(sorted(binders)) + "] "
        if guards:
            s += "IF[" + " & ".join(sorted(guards)) + "] "
        return s + v

    def nf(self, expr: ast.AST, rel_override: Optional[str] = None) -> LinNF:
        terms: Dict[str, Poly] = {}
        consts: List[Poly] = []
        opaque: List[str] = []
        one = Poly.const(1)
        if isinstance(expr, ast.Compare) and len(expr.ops) == 1 and rel_override is None:
            op = expr.ops[0]
            l, r = expr.left, expr.comparators[0]
            if isinstance(op, ast.Eq):
                rel = "=="
                self.lin(l, (), (), terms, consts, opaque, one)
                self.lin(r, (), (), terms, consts, opaque, -one)
            elif isinstance(op, ast.GtE):
                rel = ">="
                self.lin(l, (), (), terms, consts, opaque, one)
                self.lin(r, (), (), terms, consts, opaque, -one)
            elif isinstance(op, ast.LtE):
                rel = ">="
                self.lin(r, (), (), terms, consts, opaque, one)
                self.lin(l, (), (), terms, consts, opaque, -one)
            else:
                rel = "?" + type(op).__name__
                opaque.append("relation " + norm(expr)[:60])
        else:
            rel = rel_override or "expr"
            self.lin(expr, (), (), terms, consts, opaque, one)
        const = Poly()
        for c in consts:
            const = const + c
        terms = {k: v for k, v in terms.items() if not v.is_zero()}
        return LinNF(rel, terms, const, opaque)


# --------------------------------------------------------------------------- context canonicalisation
def _index_to_direct(fors: List[Ctx], exprs: List[ast.AST]) -> Tuple[List[Ctx], List[ast.AST]]:
    """`for j in range(len(X))` whose body uses j only as X[j]  ==  `for e in X` (and `enumerate(X)` with an unused index,
    which the extractor already turned into index form): rewrite to the direct form."""
    fors = list(fors)
    for pos, c in enumerate(fors):
        it = c.iter
        if not (isinstance(c.target, ast.Name) and isinstance(it, ast.Call) and dotted(it.func) == "range" and len(it.args) == 1 and
                isinstance(it.args[0], ast.Call) and dotted(it.args[0].func) == "len" and len(it.args[0].args) == 1):
            continue
        j = c.target.id
        seq = it.args[0].args[0]
        seq_dump = ast.dump(seq)
        ok = True
        n_uses = 0
        others = [x.iter for k, x in enumerate(fors) if k != pos and x.kind == "for"] + [x.test for x in fors if x.kind == "if"]
        for e in exprs + others:
            sub_ids = {id(n.slice) for n in ast.walk(e) if isinstance(n, ast.Subscript) and isinstance(n.slice, ast.Name) and n.slice.id == j and
                       ast.dump(n.value) == seq_dump}
            for n in ast.walk(e):
                if isinstance(n, ast.Name) and n.id == j:
                    n_uses += 1
                    if id(n) not in sub_ids:
                        ok = False
        if not ok or n_uses == 0:
            continue
        el = f"{j}__item"

        class R(ast.NodeTransformer):
            def visit_Subscript(self, node):
                if isinstance(node.slice, ast.Name) and node.slice.id == j and ast.dump(node.value) == seq_dump:
                    return ast.Name(id=el, ctx=ast.Load())
                return self.generic_visit(node)
        exprs = [R().visit(copy.deepcopy(e)) for e in exprs]
        fors = [Ctx(x.kind, target=x.target, iter=(R().visit(copy.deepcopy(x.iter)) if x.iter is not None else None),
                    test=(R().visit(copy.deepcopy(x.test)) if x.test is not None else None), pol=x.pol) for x in fors]
        fors[pos] = Ctx("for", target=ast.Name(id=el, ctx=ast.Store()), iter=copy.deepcopy(seq))
    return fors, exprs


def _literals(f) -> Optional[List[str]]:
    """guard as a list of literal texts when it is a conjunction of literals (the usual case)"""
    from . import boolnf as B
    if f == B.T:
        return []
    parts = f[1] if f[0] == "and" else (f,)
    out = []
    for p_ in parts:
        if p_[0] == "a":
            out.append(p_[1])
        elif p_[0] == "not" and p_[1][0] == "a":
            out.append(f"not ({p_[1][1]})")
        else:
            return None
    return sorted(out)


def _split_cases(args: Dict[str, ast.AST]):
    """Case split on conditional expressions at the top level of the arguments (not under a comprehension that binds a
    name of the test): [(extra guard formula, specialised args)]."""
    from . import boolnf as B
    import itertools
    units: Dict[str, tuple] = {}

    def collect(e: ast.AST, bound: Set[str]):
        if isinstance(e, (ast.GeneratorExp, ast.ListComp, ast.SetComp, ast.DictComp)):
            b2 = set(bound)
            for g in e.generators:
                b2 |= {n.id for n in ast.walk(g.target) if isinstance(n, ast.Name)}
            for ch in ast.iter_child_nodes(e):
                collect(ch, b2)
            return
        if isinstance(e, ast.IfExp):
            names = {n.id for n in ast.walk(e.test) if isinstance(n, ast.Name)}
            if not (names & bound):
                f = B.parse(e.test)
                k = B.key(f)
                nk = B.key(B.mk_not(f))
                if k not in units and nk not in units and f not in (B.T, B.F):
                    units[k] = f
        for ch in ast.iter_child_nodes(e):
            collect(ch, bound)
    for a in args.values():
        collect(a, set())
    if not units or len(units) > 3:
        return [(B.T, args)]
    keys = sorted(units)
    out = []
    for vals in itertools.product((True, False), repeat=len(keys)):
        guard = B.mk_and([units[k] if v else B.mk_not(units[k]) for k, v in zip(keys, vals)])
        if not B.satisfiable(guard):
            continue
        truth = dict(zip(keys, vals))

        class S(ast.NodeTransformer):
            def visit_IfExp(self, node):
                node = self.generic_visit(node)
                f = B.parse(node.test)
                k = B.key(f)
                if k in truth:
                    return node.body if truth[k] else node.orelse
                nk = B.key(B.mk_not(f))
                if nk in truth:
                    return node.orelse if truth[nk] else node.body
                return node
        out.append((guard, {k: S().visit(copy.deepcopy(v)) for k, v in args.items()}))
    return out


def _payload(kind: str, args: Dict[str, ast.AST], target: Optional[str], nz: "Normalizer") -> Dict[str, object]:
    out: Dict[str, object] = {}
    if kind == "add_constraint":
        if "expr" in args:
            o = nz.nf(args["expr"])
            out["nf"] = o.key()
            out["_nf"] = o
        else:
            out["nf"] = "MISSING"
        nm = args.get("name")
        out["_name"] = norm(nm)[:60] if nm is not None else ""
    elif kind == "set_objective":
        sense = args.get("sense")
        s_ = "min" if sense is None or (isinstance(sense, ast.Constant) and str(sense.value).startswith("min")) else (
            "max" if isinstance(sense, ast.Constant) else norm(sense))
        o = nz.nf(args["expr"], rel_override=f"obj-{s_}")
        out["nf"] = o.key()
        out["_nf"] = o
    elif kind == "add_variables":
        out["family"] = target
        for k in ("indexes", "lb", "ub", "var_type"):
            if k in args:
                a_ = args[k]
                if k == "indexes":
                    # `list(X)` / `[i for i in X]` / `[(i) for i in X]` name the same index list
                    if isinstance(a_, ast.ListComp) and len(a_.generators) == 1 and not a_.generators[0].ifs and \
                            isinstance(a_.elt, ast.Name) and isinstance(a_.generators[0].target, ast.Name) and \
                            a_.elt.id == a_.generators[0].target.id:
                        a_ = ast.Call(func=ast.Name(id="list", ctx=ast.Load()), args=[a_.generators[0].iter], keywords=[])
                        ast.fix_missing_locations(a_)
                out[k] = poly_text(a_)
        out.setdefault("lb", "0")
        out.setdefault("ub", "1")
        out.setdefault("var_type", "'integer'")
    elif kind in ("add_binary_continuous_product_constraint", "add_integer_continuous_product_constraint"):
        for k in ("binary_var", "integer_var", "continuous_var", "product_var"):
            if k in args:
                out[k] = _varref(args[k])
        for k in ("lb", "ub", "integer_ub"):
            if k in args:
                out[k] = poly_text(args[k])
    elif kind == "add_piecewise_constant_constraint":
        for k in ("x", "y"):
            if k in args:
                out[k] = _varref(args[k])
        for k in ("ranges", "constants"):
            if k in args:
                out[k] = norm(args[k])
    elif kind in ("queue_fix_variable", "queue_set_var_lower_bound", "fix_variable"):
        out["var"] = _varref(args.get("var")) if "var" in args else "MISSING"
        v = args.get("value", args.get("lb"))
        out["value"] = poly_text(v) if v is not None else "MISSING"
    elif kind == "flag":
        out["flag"] = target
        out["index"] = norm(args["index"])
        out["value"] = norm(args["value"])
    return out


def canon_effect(eff: Effect, var_names: Set[str]) -> Dict[str, object]:
    """Canonical description of an effect: quantifier, guard formula and payload (normal form / bounds), alpha-renamed.
    `_cases` lists (guard formula, payload) after case-splitting conditional expressions in the arguments; conformance
    compares those, so that one call with a conditional bound and two calls under if/else coincide."""
    from . import boolnf as B
    # 0. index -> direct binders
    arg_keys = list(eff.args)
    ctx2, arg_vals = _index_to_direct(eff.ctx, [eff.args[k] for k in arg_keys])
    args0 = dict(zip(arg_keys, arg_vals))
    # 1. collect loop binders, rename bound names positionally by sorted iter text
    fors = [c for c in ctx2 if c.kind == "for"]
    data_vars: Dict[str, Tuple[str, str, str]] = {}
    binder_descr = []
    for c in fors:
        it = canon_iter(c.iter)
        names = [n.id for n in ast.walk(c.target) if isinstance(n, ast.Name)]
        m = re.match(r"^([\w.]+)\.edges$", it)
        if m and norm(c.iter).endswith("(data=True)") and isinstance(c.target, ast.Tuple) and len(c.target.elts) == 3:
            u, v, d = [norm(x) for x in c.target.elts]
            data_vars[d] = (m.group(1), u, v)
            names = [u, v]
        binder_descr.append((it, names))
    # stable order: by iter text, then original order
    order = sorted(range(len(binder_descr)), key=lambda i: (binder_descr[i][0], i))
    mapping: Dict[str, str] = {}
    for rank, i in enumerate(order):
        for j, nme in enumerate(binder_descr[i][1]):
            mapping[nme] = f"q{rank}_{j}"

    def canon(e: ast.AST) -> ast.AST:
        e = copy.deepcopy(e)
        e = ProductToComp().visit(e)
        e = PairsToIndex().visit(e)
        e = ComprehensionEdges().visit(e)
        e = EdgeAttrCanon(data_vars).visit(e)
        e = GetCanon().visit(e)
        e = Renamer(mapping).visit(e)
        # alpha-rename comprehension-bound names
        e = _rename_comprehensions(e)
        ast.fix_missing_locations(e)
        return e

    quant = []
    for rank, i in enumerate(order):
        it_ast = canon(fors[i].iter)
        quant.append(f"({', '.join(f'q{rank}_{j}' for j in range(len(binder_descr[i][1])))}) in {canon_iter(it_ast)}")
    gf = B.mk_and([B.parse_pol(canon(c.test), c.pol) for c in ctx2 if c.kind == "if"])
    lits = _literals(gf)
    guards = lits if lits is not None else [B.key(gf)]
    nz = Normalizer(var_names)
    out: Dict[str, object] = {"kind": eff.kind, "quant": sorted(quant), "guards": guards, "_guard": gf}
    # locals built up by in-place mutation have no symbolic value: record how they are built (statement + its guards)
    builders = getattr(eff, "builders", {}) or {}
    used = set()
    for c in eff.ctx:
        if c.kind == "if":
            used |= {n.id for n in ast.walk(c.test) if isinstance(n, ast.Name)}
    for a in eff.args.values():
        used |= {n.id for n in ast.walk(a) if isinstance(n, ast.Name)}
    defs = {}
    todo = sorted(used & set(builders))
    while todo:
        nm = todo.pop(0)
        if nm in defs:
            continue
        defs[nm] = builder_parts(ast.Module(body=getattr(eff, "fn_body", None) or eff.func.node.body, type_ignores=[]), nm,
                                 [st for _, st in sorted(builders[nm], key=lambda x: x[0])])
        for txt in defs[nm]:
            for other in builders:
                if other not in defs and other not in todo and re.search(r"(?<![\w.])" + re.escape(other) + r"(?!\w)", txt):
                    todo.append(other)
    if defs:
        out["defs"] = defs
    cargs = {k: canon(v) for k, v in args0.items()}
    out.update(_payload(eff.kind, cargs, eff.target, nz))
    cases = []
    for extra, a2 in _split_cases(cargs):
        pl = {"kind": eff.kind, "quant": sorted(quant)}
        if defs:
            pl["defs"] = defs
        pl.update(_payload(eff.kind, a2, eff.target, nz))
        cases.append((B.mk_and([gf, extra]), pl))
    out["_cases"] = cases
    return out


def _chain_of(func_node: ast.AST, st: ast.stmt) -> Optional[List[Tuple[str, ast.AST, bool]]]:
    """enclosing For / While / If (with polarity) of a statement, outermost first"""
    found: List[Tuple[str, ast.AST, bool]] = []

    def find(stmts, acc) -> bool:
        acc = list(acc)
        for s_ in stmts:
            if s_ is st:
                found.extend(acc)
                return True
            if isinstance(s_, ast.If):
                if find(s_.body, acc + [("if", s_, True)]) or find(s_.orelse, acc + [("if", s_, False)]):
                    return True
                # `if c: continue / break / return / raise` before the statement: the statement runs only when c is false
                if s_.body and isinstance(s_.body[-1], (ast.Continue, ast.Break, ast.Return, ast.Raise)) and not s_.orelse:
                    acc = acc + [("if", s_, False)]
                elif s_.orelse and isinstance(s_.orelse[-1], (ast.Continue, ast.Break, ast.Return, ast.Raise)) and \
                        not (s_.body and isinstance(s_.body[-1], (ast.Continue, ast.Break, ast.Return, ast.Raise))):
                    acc = acc + [("if", s_, True)]
            elif isinstance(s_, (ast.For, ast.AsyncFor)):
                if find(s_.body, acc + [("for", s_, True)]):
                    return True
            elif isinstance(s_, ast.While):
                if find(s_.body, acc + [("while", s_, True)]):
                    return True
            elif isinstance(s_, (ast.With, ast.Try)):
                for blk in ([s_.body] + ([h.body for h in s_.handlers] + [s_.orelse, s_.finalbody] if isinstance(s_, ast.Try) else [])):
                    if find(blk, acc):
                        return True
        return False
    return found if find(func_node.body, []) else None


def canon_comp_text(comp: ast.AST) -> str:
    """canonical text of a comprehension: canon_expr + the filter of every generator as one propositional normal form"""
    from . import boolnf as B
    x = canon_expr(comp)
    for n in ast.walk(x):
        if isinstance(n, (ast.GeneratorExp, ast.ListComp, ast.SetComp, ast.DictComp)):
            for g in n.generators:
                if g.ifs:
                    f = B.mk_and([B.parse(c) for c in g.ifs])
                    g.ifs = [] if f == B.T else [ast.Name(id="<" + B.key(f) + ">", ctx=ast.Load())]
    return norm(x)


def builder_parts(func_node: ast.AST, name: str, stmts: List[ast.stmt]) -> List[str]:
    """How a local collection that is built up by in-place mutation gets its contents, as a sorted list of canonical
    parts: `init <value>`, `{E for ... if ...}` for every add / append under loops and tests (relative to the block that
    contains all building statements), `union <value>` for update / |=.  Loop-local scalars are substituted; an
    accumulator loop and the comprehension it can be rewritten to give the same parts."""
    from . import boolnf as B
    chains = [(_chain_of(func_node, st) or []) for st in stmts]
    common = 0
    if chains:
        while all(len(c) > common for c in chains) and len({id(c[common][1]) for c in chains}) == 1 and len({c[common][2] for c in chains}) == 1:
            common += 1
    # syntactically single-definition scalars of the function (substituted into elements and tests)
    counts: Dict[str, int] = {}
    vals: Dict[str, ast.AST] = {}
    for n in walk_no_nested(func_node):
        if isinstance(n, ast.Assign):
            for t in n.targets:
                for x in ast.walk(t):
                    if isinstance(x, ast.Name) and isinstance(x.ctx, ast.Store):
                        counts[x.id] = counts.get(x.id, 0) + 1
                        if isinstance(t, ast.Name):
                            vals[x.id] = n.value
        elif isinstance(n, (ast.AugAssign, ast.For, ast.comprehension, ast.With)):
            for x in ast.walk(n.target if hasattr(n, "target") else n):
                if isinstance(x, ast.Name) and isinstance(getattr(x, "ctx", None), ast.Store):
                    counts[x.id] = counts.get(x.id, 0) + 2
    mutated = set()
    for n in walk_no_nested(func_node):
        if isinstance(n, ast.Call) and isinstance(n.func, ast.Attribute) and isinstance(n.func.value, ast.Name) and \
                n.func.attr in ("add", "append", "extend", "update", "insert", "remove", "discard", "pop", "clear", "setdefault"):
            mutated.add(n.func.value.id)
    env = {k: v for k, v in vals.items() if counts.get(k) == 1 and k not in mutated and k != name}

    def S(e: ast.AST) -> ast.AST:
        x = e
        for _ in range(3):
            x = subst(x, env)
        return _tuple_index_simplify(x)

    parts: List[str] = []
    for st, chain in zip(stmts, chains):
        rel = chain[common:]
        gens: List[ast.comprehension] = []
        pre: List[ast.AST] = []
        for kind, node, pol in rel:
            if kind == "for":
                gens.append(ast.comprehension(target=node.target, iter=S(node.iter), ifs=[], is_async=0))
            else:
                t = S(node.test)
                t = t if pol else ast.UnaryOp(op=ast.Not(), operand=t)
                (gens[-1].ifs if gens else pre).append(t)
        if gens and pre:
            gens[0].ifs = pre + gens[0].ifs
            pre = []
        guard = ""
        if pre:
            guard = " if " + B.key(B.mk_and([B.parse(canon_expr(t)) for t in pre]))

        def comp_of(elt):
            if not gens:
                return norm(canon_expr(S(elt))) + guard
            return canon_comp_text(ast.SetComp(elt=S(elt), generators=gens))
        if isinstance(st, ast.Assign) and any(isinstance(t, ast.Name) and t.id == name for t in st.targets):
            v = st.value
            if isinstance(v, ast.Call) and isinstance(v.func, ast.Name) and v.func.id in ("set", "list", "frozenset", "tuple") and len(v.args) == 1 and \
                    isinstance(v.args[0], (ast.GeneratorExp, ast.ListComp, ast.SetComp)):
                v = ast.SetComp(elt=v.args[0].elt, generators=v.args[0].generators)
            elif isinstance(v, ast.ListComp):
                v = ast.SetComp(elt=v.elt, generators=v.generators)
            empty = (isinstance(v, ast.Call) and isinstance(v.func, ast.Name) and v.func.id in ("set", "list", "dict") and not v.args) or \
                (isinstance(v, (ast.List, ast.Tuple)) and not v.elts) or (isinstance(v, ast.Dict) and not v.keys)
            if empty:
                continue
            txt = canon_comp_text(S(v)) if isinstance(v, (ast.SetComp, ast.DictComp)) else norm(canon_expr(S(v)))
            parts.append(("init " if not gens else "reset ") + txt + guard)
        elif isinstance(st, ast.Expr) and isinstance(st.value, ast.Call) and isinstance(st.value.func, ast.Attribute) and len(st.value.args) == 1 and \
                st.value.func.attr in ("add", "append"):
            parts.append(comp_of(st.value.args[0]))
        elif isinstance(st, ast.Expr) and isinstance(st.value, ast.Call) and isinstance(st.value.func, ast.Attribute) and len(st.value.args) == 1 and \
                st.value.func.attr in ("update", "extend"):
            parts.append("union " + comp_of(st.value.args[0]))
        elif isinstance(st, ast.AugAssign) and isinstance(st.op, (ast.BitOr, ast.Add)):
            parts.append("union " + comp_of(st.value))
        elif isinstance(st, ast.Assign) and any(isinstance(t, ast.Subscript) for t in st.targets):
            t = [t for t in st.targets if isinstance(t, ast.Subscript)][0]
            parts.append("item " + comp_of(ast.Tuple(elts=[t.slice, st.value], ctx=ast.Load())))
        else:
            parts.append("stmt " + " : ".join([("for " + norm(n.target) + " in " + canon_iter(n.iter)) if k == "for" else ("if " + canon_guard(n.test, p_)) for k, n, p_ in rel] + [norm(st)]))
    # an `init {comprehension}` is the same as the parts of the loop it abbreviates
    parts = [p_[5:] if p_.startswith("init {") or p_.startswith("init [") else p_ for p_ in parts]
    return sorted(parts)


def builder_text(func_node: ast.AST, st: ast.stmt) -> str:
    """Normalised text of a statement that builds a mutated local, prefixed by the tests / loops that enclose it."""
    chain: List[str] = []

    def find(stmts, acc) -> bool:
        for s_ in stmts:
            if s_ is st:
                chain.extend(acc)
                return True
            if isinstance(s_, ast.If):
                if find(s_.body, acc + ["if " + canon_guard(s_.test, True)]):
                    return True
                if find(s_.orelse, acc + ["if " + canon_guard(s_.test, False)]):
                    return True
            elif isinstance(s_, (ast.For, ast.AsyncFor)):
                if find(s_.body, acc + [f"for {norm(s_.target)} in {canon_iter(s_.iter)}"]):
                    return True
            elif isinstance(s_, ast.While):
                if find(s_.body, acc + ["while " + norm(s_.test)]):
                    return True
            elif isinstance(s_, (ast.With, ast.Try)):
                for blk in ([s_.body] + ([h.body for h in s_.handlers] + [s_.orelse, s_.finalbody] if isinstance(s_, ast.Try) else [])):
                    if find(blk, acc):
                        return True
        return False
    find(func_node.body, [])
    return " : ".join(chain + [norm(st)])


def _varref(e: ast.AST) -> str:
    return re.sub(r"\[\((\w+)\)\]", r"[\1]", norm(e))


def poly_text(e: ast.AST) -> str:
    if isinstance(e, ast.Constant) and isinstance(e.value, str):
        return repr(e.value)
    if isinstance(e, ast.IfExp):
        return f"({poly_text(e.body)} if {norm(e.test)} else {poly_text(e.orelse)})"
    if isinstance(e, ast.Call) and dotted(e.func) in ("max", "min") and not e.keywords:
        return f"{dotted(e.func)}({', '.join(sorted(poly_text(a) for a in e.args))})"
    return repr(to_poly(e))


def canon_guard(test: ast.AST, pol: bool) -> str:
    while isinstance(test, ast.UnaryOp) and isinstance(test.op, ast.Not):
        test = test.operand
        pol = not pol
    if isinstance(test, ast.Compare) and len(test.ops) == 1:
        op = test.ops[0]
        flip = {ast.NotIn: ast.In, ast.NotEq: ast.Eq, ast.IsNot: ast.Is}
        for neg, pos in flip.items():
            if isinstance(op, neg):
                test = ast.Compare(left=test.left, ops=[pos()], comparators=test.comparators)
                pol = not pol
                break
    if isinstance(test, ast.BoolOp):
        parts = sorted(canon_guard(v, True) for v in test.values)
        txt = (" and " if isinstance(test.op, ast.And) else " or ").join(f"({p})" for p in parts)
    else:
        txt = norm(test)
    return txt if pol else f"not ({txt})"


def _collapse_tuple_targets(node):
    """{(a, b) for (a, b) in X}  ==  {e for e in X}: a tuple target whose names are only used re-tupled in the same order is
    replaced by a single name"""
    node = copy.deepcopy(node)
    for gi, g in enumerate(node.generators):
        t = g.target
        if not (isinstance(t, ast.Tuple) and t.elts and all(isinstance(x, ast.Name) for x in t.elts)):
            continue
        names = [x.id for x in t.elts]
        dump = ast.dump(ast.Tuple(elts=[ast.Name(id=n, ctx=ast.Load()) for n in names], ctx=ast.Load()))
        rest: List[ast.AST] = list(g.ifs)
        for g2 in node.generators[gi + 1:]:
            rest += [g2.iter] + list(g2.ifs)
        for fld in ("elt", "key", "value"):
            if hasattr(node, fld):
                rest.append(getattr(node, fld))
        whole = 0
        single = 0
        for r in rest:
            ids_in_whole = set()
            for n in ast.walk(r):
                if isinstance(n, ast.Tuple) and ast.dump(n) == dump:
                    whole += 1
                    ids_in_whole |= {id(x) for x in n.elts}
            for n in ast.walk(r):
                if isinstance(n, ast.Name) and n.id in names and id(n) not in ids_in_whole:
                    single += 1
        if single == 0 and whole > 0:
            new_name = "_".join(names) + "__t"

            class R(ast.NodeTransformer):
                def visit_Tuple(self, n):
                    if ast.dump(n) == dump:
                        return ast.Name(id=new_name, ctx=ast.Load())
                    return self.generic_visit(n)
            g.target = ast.Name(id=new_name, ctx=ast.Store())
            g.ifs = [R().visit(c) for c in g.ifs]
            for g2 in node.generators[gi + 1:]:
                g2.iter = R().visit(g2.iter)
                g2.ifs = [R().visit(c) for c in g2.ifs]
            for fld in ("elt", "key", "value"):
                if hasattr(node, fld):
                    setattr(node, fld, R().visit(getattr(node, fld)))
    return node


def _rename_comprehensions(e: ast.AST) -> ast.AST:
    """Alpha-rename names bound by comprehensions.  A bound name is renamed after its *domain*: b<crc of the canonical
    iterable text>_<position in the target>, processed top-down so that dependent domains see renamed outer names.  The
    result does not depend on term order or on how generators are nested / flattened."""
    import zlib

    def tag(text: str) -> str:
        return "%04x" % (zlib.crc32(text.encode()) & 0xFFFF)

    def process(node: ast.AST, used: Tuple[str, ...]) -> ast.AST:
        if isinstance(node, (ast.GeneratorExp, ast.ListComp, ast.SetComp, ast.DictComp)):
            mapping: Dict[str, str] = {}
            new_gens = []
            cur_used = used
            node = _collapse_tuple_targets(node)
            for g in node.generators:
                it = Renamer(mapping).visit(copy.deepcopy(g.iter))
                it = process(it, cur_used)
                base = tag(canon_iter(it))
                nm = base
                n = 0
                while nm in cur_used:
                    n += 1
                    nm = f"{base}p{n}"
                cur_used = cur_used + (nm,)
                for jx, x in enumerate([x for x in ast.walk(g.target) if isinstance(x, ast.Name)]):
                    mapping[x.id] = f"b{nm}_{jx}"
                tgt = Renamer(mapping).visit(copy.deepcopy(g.target))
                ifs = [process(Renamer(mapping).visit(copy.deepcopy(c)), cur_used) for c in g.ifs]
                if ifs and not (len(ifs) == 1 and isinstance(ifs[0], ast.Name) and ifs[0].id.startswith("<")):
                    # the filter as one propositional normal form (tautologies vanish, order / De Morgan do not matter)
                    from . import boolnf as _B
                    f_ = _B.mk_and([_B.parse(c) for c in ifs])
                    ifs = [] if f_ == _B.T else [ast.Name(id="<" + _B.key(f_) + ">", ctx=ast.Load())]
                new_gens.append(ast.comprehension(target=tgt, iter=it, ifs=ifs, is_async=g.is_async))
            node = copy.copy(node)
            node.generators = new_gens
            for fld in ("elt", "key", "value"):
                if hasattr(node, fld):
                    setattr(node, fld, process(Renamer(mapping).visit(copy.deepcopy(getattr(node, fld))), cur_used))
            return node
        for fld, val in ast.iter_fields(node):
            if isinstance(val, ast.AST):
                setattr(node, fld, process(val, used))
            elif isinstance(val, list):
                setattr(node, fld, [process(v, used) if isinstance(v, ast.AST) else v for v in val])
        return node

    return process(copy.deepcopy(e), ())


# --------------------------------------------------------------------------------- variable families
_FAM_CACHE: Dict[tuple, Dict[str, Effect]] = {}


def var_families(prog: Program, cls: ClassInfo) -> Dict[str, Effect]:
    """self.<attr> assigned from self.solver.add_variables(...) anywhere in the MRO of cls."""
    ck = (id(prog), cls.module.name, cls.name)
    if ck in _FAM_CACHE:
        return _FAM_CACHE[ck]
    fams = _var_families(prog, cls)
    _FAM_CACHE[ck] = fams
    return fams


def _var_families(prog: Program, cls: ClassInfo) -> Dict[str, Effect]:
    fams: Dict[str, Effect] = {}
    for c in prog.mro(cls):
        for f in c.methods.values():
            for eff in extract(prog, f):
                if eff.kind == "add_variables" and eff.target:
                    fams.setdefault(eff.target, eff)
    return fams
