"""Sensitivity audit (thorough tier) - placeholder until the variant corpus is built."""


def run_for_property(pid, rep):
    rep.note("thorough tier: sensitivity audit not built yet; thorough == quick for now")


def main(pid=None):
    print("selftest corpus not built yet")
    return 0
