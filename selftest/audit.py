"""Sensitivity audit: run the checks on the variants of selftest/variants.py, on the seeded changes (seeded/*/patch.diff), on the reverse of every
repair made to /repo (reverts/*.diff: the defect must be reported again) and on
the corpus of behaviour-preserving refactorings (benign/*/*.diff: every check must stay silent on them).

    ./check --selftest [Cxx]      run the whole corpus (or the variants relevant to one property), print a table, exit 0 iff every
                                  break-variant is reported by all the properties it lists and every benign variant is silent
    thorough tier of ./check Cxx  the same restricted to Cxx; the kill ratio is written into the evidence; a failed expectation makes
                                  the thorough run exit 2 (the checker, not the library, is then at fault)

Every variant is applied to a scratch copy of /repo/flowpaths under $TMPDIR, which is removed as soon as its checks finished.
"""
from __future__ import annotations

import json
import os
import shutil
import subprocess
import sys
import tempfile
from concurrent.futures import ThreadPoolExecutor

HERE = os.path.dirname(os.path.dirname(os.path.abspath(__file__)))
ALL = [f"C{i:02d}" for i in range(1, 21)]


def repo_root():
    return os.environ.get("VERIF_REPO", "/repo")


def run_checks(root: str, pids):
    out = {}
    for pid in pids:
        env = dict(os.environ, VERIF_REPO=root, VERIF_EVIDENCE_DIR=os.path.join(root, "_evidence"), VERIF_TIER="quick")
        r = subprocess.run([sys.executable, os.path.join(HERE, "check.py"), pid, "--tier", "quick"], capture_output=True, text=True, env=env)
        first = [l.strip() for l in r.stdout.splitlines() if l.startswith("  ") and "[" in l][:1]
        err = [l.strip() for l in r.stdout.splitlines() if l.startswith("ANALYSIS-ERROR")][:1]
        out[pid] = (r.returncode, (first or err or [""])[0][:260])
    return out


def apply_variant(root: str, edits) -> str:
    for e in edits:
        if callable(e):
            e(root)
            continue
        rel, old, new, cnt = e
        p = os.path.join(root, rel)
        if not os.path.exists(p):
            return f"stale: {rel} missing"
        s = open(p, encoding="utf-8").read()
        if s.count(old) != cnt:
            return f"stale: expected {cnt} occurrence(s) of the anchor text in {rel}, found {s.count(old)}"
        open(p, "w", encoding="utf-8").write(s.replace(old, new))
    # must still compile
    r = subprocess.run([sys.executable, "-m", "compileall", "-q", os.path.join(root, "flowpaths")], capture_output=True, text=True)
    if r.returncode != 0:
        return "variant does not compile: " + (r.stdout + r.stderr)[-200:]
    return ""


def one(job):
    name, expected, edits, pids, patch = job
    d = tempfile.mkdtemp(prefix="verif_audit_")
    try:
        shutil.copytree(os.path.join(repo_root(), "flowpaths"), os.path.join(d, "flowpaths"), ignore=shutil.ignore_patterns("__pycache__"))
        if patch:
            r = subprocess.run(f"cd {d} && patch -p1 -s < {patch}", shell=True, capture_output=True, text=True)
            if r.returncode != 0:
                return name, expected, "stale: patch does not apply", {}
            msg = ""
        else:
            msg = apply_variant(d, edits)
        if msg:
            return name, expected, msg, {}
        return name, expected, "", run_checks(d, pids)
    finally:
        shutil.rmtree(d, ignore_errors=True)


def jobs_for(pid=None):
    from selftest.variants import V, B
    jobs = []
    for name, expected, edits in V:
        if expected == B:
            pids = [pid] if pid else ALL
        else:
            if pid and pid not in expected:
                continue
            pids = [pid] if pid else sorted(expected)
        jobs.append((name, expected, edits, pids, None))
    sd = os.path.join(HERE, "seeded")
    if os.path.isdir(sd):
        for s in sorted(os.listdir(sd)):
            mp = os.path.join(sd, s, "meta.json")
            if not os.path.exists(mp):
                continue
            meta = json.load(open(mp))
            exp = set(meta.get("detected_by") or [meta["property"]])
            if meta["property"] not in exp and not meta.get("not_detected_by_own_property"):
                exp.add(meta["property"])
            if meta.get("not_detected_by_own_property"):
                exp.discard(meta["property"])
            if pid and pid not in exp:
                continue
            jobs.append((f"seeded/{s}", exp, None, [pid] if pid else sorted(exp), os.path.join(sd, s, "patch.diff")))
    # regression corpus: the reverse of every repair (`fixed:` lines of KNOWN_FINDINGS.txt) re-introduces a genuine defect of the pinned
    # tree; the property the line names must report it again (tools/make_reverts.py)
    rd = os.path.join(HERE, "reverts")
    if os.path.exists(os.path.join(rd, "index.json")):
        for e in json.load(open(os.path.join(rd, "index.json"))):
            if not e.get("applies"):
                continue
            exp = {e["property"]}
            if pid and pid not in exp:
                continue
            jobs.append((f"reverts/{e['commit']}", exp, None, [pid] if pid else sorted(exp), os.path.join(rd, e["commit"] + ".diff")))
    # behaviour-preserving refactorings written by independent sub-agents: every check must stay silent on each of them
    bd = os.path.join(HERE, "benign")
    if os.path.isdir(bd):
        for area in sorted(os.listdir(bd)):
            ad = os.path.join(bd, area)
            if not os.path.isdir(ad):
                continue
            for fn in sorted(os.listdir(ad)):
                if fn.endswith(".diff"):
                    jobs.append((f"benign/{area}/{fn}", B, None, [pid] if pid else ALL, os.path.join(ad, fn)))
    return jobs


_UNJ = None


def unjudged():
    global _UNJ
    if _UNJ is None:
        fp = os.path.join(HERE, "benign", "UNJUDGED.json")
        _UNJ = json.load(open(fp)) if os.path.exists(fp) else {}
    return _UNJ


def evaluate(results):
    rows = []
    ok_all = True
    for name, expected, msg, res in results:
        if msg:
            rows.append((name, "SKIP", msg))
            continue
        if expected == "benign":
            bad = {p: r for p, r in res.items() if r[0] != 0}
            # restructurings the machinery is known not to see through: the check must say so (exit 2, ANALYSIS-ERROR) and must
            # never accuse the code (exit 1).  benign/UNJUDGED.json lists them with the reason; anything else is a failed expectation.
            lim = unjudged().get(name)
            if bad and lim is not None and all(r[0] == 2 and p in lim["unjudged_by"] for p, r in bad.items()):
                rows.append((name, "unjudged", f"{sorted(bad)} end with ANALYSIS-ERROR as listed in benign/UNJUDGED.json ({lim['why'][:90]})"))
                continue
            if bad:
                ok_all = False
                rows.append((name, "FALSE-ALARM", "; ".join(f"{p} exit {r[0]}: {r[1]}" for p, r in bad.items())))
            else:
                rows.append((name, "silent", f"{len(res)} check(s) exit 0"))
        else:
            missed = [p for p in res if res[p][0] != 1]
            if missed:
                ok_all = False
                rows.append((name, "MISSED", f"not reported by {missed} (exit {[res[p][0] for p in missed]})"))
            else:
                rows.append((name, "killed", "; ".join(f"{p}: {res[p][1][:110]}" for p in sorted(res))))
    return ok_all, rows


def listed_findings_reproduce(pid=None):
    """every `finding:` line of KNOWN_FINDINGS.txt is reported (as KNOWN-FINDING) on the clean tree: a rule that silently stops reaching a listed construct
    would otherwise go unnoticed"""
    import re as _re
    want = {}
    for line in open(os.path.join(HERE, "KNOWN_FINDINGS.txt"), encoding="utf-8"):
        m = _re.match(r"finding:\s*property=(\S+)\s+rule=(\S+)\s+key=(.+?)\s+::", line)
        if m and (pid is None or m.group(1) == pid):
            want.setdefault(m.group(1), set()).add((m.group(2), m.group(3)))
    rows = []
    for p_, keys in sorted(want.items()):
        env = dict(os.environ, VERIF_EVIDENCE_DIR=tempfile.mkdtemp(prefix="verif_kf_"), VERIF_TIER="quick")
        r = subprocess.run([sys.executable, os.path.join(HERE, "check.py"), p_, "--tier", "quick"], capture_output=True, text=True, env=env)
        shutil.rmtree(env["VERIF_EVIDENCE_DIR"], ignore_errors=True)
        got = set(_re.findall(r"^KNOWN-FINDING: property=\S+ rule=(\S+) key=(.+?) at ", r.stdout, _re.M))
        for k in sorted(keys - got):
            rows.append((f"known-finding/{p_}/{k[0]}/{k[1]}", "MISSED", "the listed finding is not reported on the clean tree"))
        for k in sorted(keys & got):
            rows.append((f"known-finding/{p_}/{k[0]}/{k[1]}", "killed", "reported as KNOWN-FINDING on the clean tree"))
    return rows


def run(pid=None, workers=None):
    jobs = jobs_for(pid)
    with ThreadPoolExecutor(max_workers=workers or min(16, os.cpu_count() or 4)) as ex:
        results = list(ex.map(one, jobs))
    ok, rows = evaluate(results)
    extra = listed_findings_reproduce(pid)
    if any(r[1] == "MISSED" for r in extra):
        ok = False
    return ok, rows + extra


def run_for_property(pid, rep):
    ok, rows = run(pid)
    killed = sum(1 for r in rows if r[1] == "killed")
    silent = sum(1 for r in rows if r[1] == "silent")
    unj = [r for r in rows if r[1] == "unjudged"]
    missed = [r for r in rows if r[1] == "MISSED"]
    fa = [r for r in rows if r[1] == "FALSE-ALARM"]
    skipped = [r for r in rows if r[1] == "SKIP"]
    rep.extra["sensitivity_audit"] = {
        "break_variants_run": killed + len(missed), "killed": killed, "missed": [r[0] for r in missed],
        "benign_variants_run": silent + len(fa) + len(unj), "benign_silent": silent,
        "benign_reported_as_unjudgeable": [f"{r[0]}: {r[2][:200]}" for r in unj],
        "false_alarms": [f"{r[0]}: {r[2][:200]}" for r in fa],
        "skipped_stale": [f"{r[0]}: {r[2][:80]}" for r in skipped],
        "samples": [f"{r[0]} -> {r[1]}: {r[2][:160]}" for r in rows[:12]],
    }
    print(f"{pid} sensitivity audit: {killed}/{killed + len(missed)} break-variants killed, {silent}/{silent + len(fa) + len(unj)} benign variants silent, "
          f"{len(unj)} benign restructuring(s) end with ANALYSIS-ERROR as listed in benign/UNJUDGED.json, {len(skipped)} stale")
    for r in missed + fa:
        print(f"ANALYSIS-ERROR property={pid} self-test expectation failed: {r[0]} {r[1]} {r[2][:300]}")
    if missed or fa:
        rep.audit_failed = True
    if killed == 0 and not skipped:
        print(f"ANALYSIS-ERROR property={pid}: no break-variant of the corpus is killed by this property's rules (vacuous)")
        rep.audit_failed = True


def main(pid=None):
    ok, rows = run(pid)
    w = max(len(r[0]) for r in rows) if rows else 10
    for r in rows:
        print(f"{r[0]:<{w}}  {r[1]:<11}  {r[2][:200]}")
    n_k = sum(1 for r in rows if r[1] == "killed")
    n_s = sum(1 for r in rows if r[1] == "silent")
    n_u = sum(1 for r in rows if r[1] == "unjudged")
    n_bad = sum(1 for r in rows if r[1] in ("MISSED", "FALSE-ALARM"))
    print(f"self-test: {n_k} killed, {n_s} silent, {n_u} benign restructuring(s) reported as unjudgeable (listed), {n_bad} failed expectation(s), "
          f"{sum(1 for r in rows if r[1] == 'SKIP')} stale")
    return 0 if ok else 1
