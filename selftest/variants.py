"""Self-test corpus: variants of the current tree that exercise the *checker* (never the library).

Each variant is (name, expected, edits):
    expected : set of property ids that MUST report a violation (exit 1) on the variant - other properties may or may not fire;
               or the string "benign": every check must stay silent (exit 0).
    edits    : list of (relative file, old substring, new substring, count) applied to a scratch copy of /repo/flowpaths;
               or a callable(dir) for whole-tree transformations.
A variant whose `old` text is no longer present is *stale* (the repository moved on): it is reported and skipped, never failed.
Break variants are behaviour-breaking edits that still compile; benign variants preserve behaviour.
"""
from __future__ import annotations

import ast
import os
import re

B = "benign"
V = []


def v(name, expected, *edits):
    V.append((name, expected, list(edits)))


AP = "flowpaths/abstractpathmodeldag.py"
AW = "flowpaths/abstractwalkmodeldigraph.py"
SW = "flowpaths/utils/solverwrapper.py"
KFD = "flowpaths/kflowdecomp.py"
KFDC = "flowpaths/kflowdecompcycles.py"
KLAE = "flowpaths/kleastabserrors.py"
KLAEC = "flowpaths/kleastabserrorscycles.py"
KMPE = "flowpaths/kminpatherror.py"
KMPEC = "flowpaths/kminpatherrorcycles.py"
KPC = "flowpaths/kpathcover.py"
KPCC = "flowpaths/kpathcovercycles.py"
MFD = "flowpaths/minflowdecomp.py"
MFDC = "flowpaths/minflowdecompcycles.py"
MPC = "flowpaths/minpathcover.py"
MPCC = "flowpaths/minpathcovercycles.py"
MGS = "flowpaths/mingenset.py"
MSC = "flowpaths/minsetcover.py"
MEF = "flowpaths/minerrorflow.py"
NED = "flowpaths/nodeexpandeddigraph.py"
NPO = "flowpaths/numpathsoptimization.py"
SSG = "flowpaths/abstractsourcesinkgraph.py"
STD = "flowpaths/stdag.py"
STG = "flowpaths/stdigraph.py"
GU = "flowpaths/utils/graphutils.py"
SPC = "flowpaths/utils/safetypathcovers.py"
SPCC = "flowpaths/utils/safetypathcoverscycles.py"

# ----------------------------------------------------------------------------------------------- C01
v("c01-10c-relaxed", {"C01"}, (AP, "- self.solver.quicksum(self.edge_vars[(v, w, i)] for w in self.G.successors(v))\n                    == 0,\n                    f\"10c_v",
                                "- self.solver.quicksum(self.edge_vars[(v, w, i)] for w in self.G.successors(v))\n                    >= 0,\n                    f\"10c_v", 1))
v("c01-10a-dropped-layer", {"C01"}, (AP, "        for i in range(self.k):\n            \n            if not self.allow_empty_paths:", "        for i in range(self.k - 1):\n            \n            if not self.allow_empty_paths:", 1))
v("c01-strip-only-first", {"C01"}, (AP, "paths.append(path[1:-1])", "paths.append(path[1:])", 1))
v("c01-walk-strip", {"C01"}, (AW, "            return walk[1:-1]", "            return walk[:-1]", 1))
v("c01-19c-bigM-too-small", {"C01"}, (AW, "        M = self.G.number_of_nodes() + 1\n", "        M = self.G.number_of_nodes() - 1\n", 1))
v("c01-22b-dropped", {"C01"}, (AW, "                    incoming_selected_v <= 1,", "                    incoming_selected_v <= 2,", 1))
v("c01-wrapper-not-condensed", {"C01", "C11"}, (MFDC, "                    self._solution[\"walks\"] = self.G_internal.get_condensed_paths(self._solution[\"walks\"])\n",
                                                 "                    pass\n", 1))
v("c01-double-augmentation", {"C01"}, (MPCC, "        self.G = self.G_internal\n", "        self.G = stdigraph.stDiGraph(self.G_internal)\n", 1))
v("c01-remove-empty-forgets-slacks", {"C01"}, (KMPEC, "        solution_copy[\"slacks\"] = non_empty_slacks\n", "", 1))
v("c01-sink-edge-and", {"C01", "C10"}, (SSG, "if self.base_graph.out_degree(u) == 0 or u in self.additional_ends:", "if self.base_graph.out_degree(u) == 0 and u in self.additional_ends:", 1))
# ----------------------------------------------------------------------------------------------- C02
v("c02-10d-geq", {"C02"}, (KFD, "self.solver.quicksum(self.pi_vars[(u, v, i)] for i in range(self.k)) == f_u_v,\n                name=f\"10d_u={u}_v={v}\",",
                            "self.solver.quicksum(self.pi_vars[(u, v, i)] for i in range(self.k)) >= f_u_v,\n                name=f\"10d_u={u}_v={v}\",", 1))
v("c02-binary-helper-in-walk-model", {"C02"}, (KFDC, "self.solver.add_integer_continuous_product_constraint(\n                        integer_var=self.edge_vars[(u, v, i)],",
                                                "self.solver.add_binary_continuous_product_constraint(\n                        binary_var=self.edge_vars[(u, v, i)],", 1))
v("c02-flags-swapped", {"C02", "C05"}, (KFD, "                if (u, v, i) in self.edges_set_to_zero:\n                    self.solver.add_constraint(\n                            self.pi_vars[(u, v, i)] == 0,",
                                         "                if (u, v, i) in self.edges_set_to_one:\n                    self.solver.add_constraint(\n                            self.pi_vars[(u, v, i)] == 0,", 1),
  (KFD, "                elif (u, v, i) in self.edges_set_to_one:\n                    self.solver.add_constraint(\n                            self.pi_vars[(u, v, i)] == self.path_weights_vars[(i)],",
        "                elif (u, v, i) in self.edges_set_to_zero:\n                    self.solver.add_constraint(\n                            self.pi_vars[(u, v, i)] == self.path_weights_vars[(i)],", 1))
v("c02-round-dropped", {"C02"}, (KFDC, "                round(weights_sol_dict[i])\n                if self.weight_type == int", "                weights_sol_dict[i]\n                if self.weight_type == int", 1))
v("c02-greedy-accept-always", {"C02", "C05", "C13"}, (KFD, "        if len(paths) <= self.k:\n", "        if len(paths) >= 0:\n", 1))
v("c02-extra-skip", {"C02", "C10"}, (KFD, "            f_u_v = float(data[self.flow_attr])\n\n            # We encode that edge_vars[(u,v,i)] * self.path_weights_vars[(i)] = self.pi_vars[(u,v,i)],\n            # assuming self.w_max is a bound for self.path_weights_vars[(i)]\n            for i in range(self.k):\n                if (u, v, i) in self.edges_set_to_zero:",
                                      "            f_u_v = float(data[self.flow_attr])\n            if f_u_v == 0:\n                continue\n\n            for i in range(self.k):\n                if (u, v, i) in self.edges_set_to_zero:", 1))
v("c02-wmax-halved", {"C02"}, (KFD, "        self.w_max = math.ceil(max_flow_value) if self.weight_type == int else float(max_flow_value)",
                                "        self.w_max = (math.ceil(max_flow_value) if self.weight_type == int else float(max_flow_value)) / 2", 1))
v("c02-wmax-truncated-again", {"C02"}, (KFD, "        self.w_max = math.ceil(max_flow_value) if self.weight_type == int else float(max_flow_value)",
                                "        self.w_max = self.weight_type(max_flow_value)", 1))
# ----------------------------------------------------------------------------------------------- C03 / C04 / C09 / C15 searches
v("c03-start-after-lowerbound", {"C03", "C13"}, (MFD, "for i in range(self.get_lowerbound_k(), self.G.number_of_edges() + len(self.subpath_constraints) + 1):", "for i in range(self.get_lowerbound_k() + 1, self.G.number_of_edges() + len(self.subpath_constraints) + 2):", 1))
v("c03-range-off-by-one", {"C03"}, (MFD, "for i in range(self.get_lowerbound_k(), self.G.number_of_edges() + len(self.subpath_constraints) + 1):", "for i in range(self.get_lowerbound_k(), self.G.number_of_edges() + len(self.subpath_constraints)):", 1))
v("c03-range-without-constraints", {"C03"}, (MFD, "for i in range(self.get_lowerbound_k(), self.G.number_of_edges() + len(self.subpath_constraints) + 1):", "for i in range(self.get_lowerbound_k(), self.G.number_of_edges() + 1):", 1))
v("c03-width-without-ignore", {"C03", "C09"}, (MFD, "stG.get_width(edges_to_ignore=stG.source_sink_edges.union(self.edges_to_ignore))", "stG.get_width()", 1))
v("c03-lowerbound-sum", {"C03"}, (MFD, "self._lowerbound_k = max(self._lowerbound_k, math.ceil(math.log2(len(all_weights))) if all_weights else 0)", "self._lowerbound_k = self._lowerbound_k + (math.ceil(math.log2(len(all_weights))) if all_weights else 0)", 1))
v("c03-given-weights-adopted-unconditionally", {"C03", "C05"}, (MFD, "                if len(self._given_weights_model.get_solution(remove_empty_paths=True)[\"paths\"]) == i:\n                    fd_model = self._given_weights_model",
                                                               "                if len(self._given_weights_model.get_solution(remove_empty_paths=True)[\"paths\"]) >= i:\n                    fd_model = self._given_weights_model", 1))
v("c03-exit", {"C03", "C13"}, (MFD, "            utils.logger.info(f\"{__name__}: did NOT find a min gen set solution\")\n", "            utils.logger.info(f\"{__name__}: did NOT find a min gen set solution\")\n            exit(0)\n", 1))
v("c04-skip-inconclusive", {"C04", "C13"}, (MFDC, "            else:\n                # If the model is not solved and the status is not infeasible,\n                # it means that the solver stopped because of an unexpected termination,\n                # thus we cannot conclude that the model is infeasible.\n                # In this case, we stop the search.\n                return False",
                                             "            else:\n                continue", 1))
v("c04-cap-guard-inverted", {"C04"}, (AW, "            if not self.G.is_scc_edge(edge[0], edge[1]):\n                self.edge_upper_bounds[edge] = 1", "            if self.G.is_scc_edge(edge[0], edge[1]):\n                self.edge_upper_bounds[edge] = 1", 1))
v("c04-cap-provider-constant", {"C04"}, (KPCC, "max_edge_repetition=self.G.number_of_edges() * self.G.number_of_nodes(),", "max_edge_repetition=2,", 1))
v("c09-cover-weakened", {"C09"}, (KPC, "                ) >= 1,\n                name=f\"cover_u={u}_v={v}\",", "                ) >= 0,\n                name=f\"cover_u={u}_v={v}\",", 1))
v("c09-width-cache-always", {"C09", "C17"}, (STD, "        if (edges_to_ignore is None or len(edges_to_ignore) == 0):\n            self.width = width", "        self.width = width", 1))
v("c09-publish-wrong-model", {"C09", "C13"}, (MPC, "            if model.is_solved():\n                self._solution = dict(model.get_solution())", "            if model.solver.get_model_status() != sw.SolverWrapper.infeasible_status:\n                self._solution = dict(model.get_solution())", 1))
v("c15-sum-total-dropped", {"C15"}, (MGS, "            == float(self.total),\n            name=f\"total\",", "            <= float(self.total),\n            name=f\"total\",", 1))
v("c15-integer-helper-for-multiplicity", {"C15"}, (MGS, "                    self.solver.add_integer_continuous_product_constraint(\n                            integer_var=self.x_vars[(i, j)],",
                                                     "                    self.solver.add_binary_continuous_product_constraint(\n                            binary_var=self.x_vars[(i, j)],", 1))
v("c15-setcover-objective-unweighted-subscripts-none", {"C15"}, (MSC, "        if self.subset_weights is None:\n            # As documented: if not provided, each subset has weight 1\n            self.subset_weights = [1] * len(subsets)\n", "", 1))
v("c15-range-short", {"C15"}, (MGS, "max(self.lowerbound+1, len(self.initial_numbers)+2+extra_for_partitions)", "max(self.lowerbound+1, len(self.initial_numbers)+extra_for_partitions)", 1))
# ----------------------------------------------------------------------------------------------- C05 / C06
v("c05-flag-without-constraint", {"C05"}, (AW, "                        self.edges_set_to_one[(u, v, i)] = True\n", "                        self.edges_set_to_one[(u, v, i)] = True\n                        self.edges_set_to_one[(v, u, i)] = True\n", 1))
v("c05-layer-bound-dropped", {"C05"}, (AW, "            for i in range(min(len(self.walks_to_fix), self.k)):\n                walk = self.walks_to_fix[i]\n                if not walk:\n                    continue\n\n                # Count multiplicities",
                                        "            for i in range(len(self.walks_to_fix)):\n                walk = self.walks_to_fix[i]\n                if not walk:\n                    continue\n\n                # Count multiplicities", 1))
v("c05-option-key-typo", {"C05"}, (MFDC, "given_weights_optimization_options[\"allow_empty_walks\"] = True", "given_weights_optimization_options[\"allow_empty_walk\"] = True", 1))
v("c05-encoder-before-create", {"C05"}, (KPC, "        # This method is called from the super class AbstractPathModelDAG\n        self.create_solver_and_paths()\n\n        # This method is called from the current class to encode the path cover\n        self._encode_path_cover()",
                                          "        self._encode_path_cover()\n        self.create_solver_and_paths()", 1))
v("c06-restore-dropped", {"C06"}, (SPCC, "        adj_dict[v].pop()      #remove reversed edges\n        adj_dict[u].append(v)  #reinsert removed edges\n\n    return first_bridge", "        adj_dict[u].append(v)  #reinsert removed edges\n\n    return first_bridge", 1))
v("c06-lock-dropped", {"C06"}, (SPC, "            with worker_locks[worker_id]:\n                if isinstance(edge, tuple):", "            if True:\n                if isinstance(edge, tuple):", 1))
v("c06-multiplicity-guard-dropped", {"C06"}, (AW, "                        if m != 1:\n                            utils.logger.critical", "                        if False:\n                            utils.logger.critical", 1))
# ----------------------------------------------------------------------------------------------- C07 / C08
v("c07-9ab-dropped", {"C07"}, (KLAE, "            self.solver.add_constraint(\n                self.solver.quicksum(self.pi_vars[(u, v, i)] for i in range(self.k)) - f_u_v <= self.edge_errors_vars[(u, v)],\n                name=f\"9ab_u={u}_v={v}_i={i}\",\n            )\n", "", 1))
v("c07-objective-unscaled-writer", {"C07"}, (KLAEC, "                self.edge_errors_vars[(u, v)] * float(self.edge_error_scaling.get((u, v), 1)) if self.edge_error_scaling.get((u, v), 1) != 1 else self.edge_errors_vars[(u, v)]", "                self.edge_errors_vars[(u, v)]", 1))
v("c07-reader-unscaled", {"C07"}, (KLAE, "return sum(error * float(self.edge_error_scaling.get(edge, 1)) for edge, error in edge_errors.items())", "return sum(edge_errors.values())", 1))
v("c08-scale-on-slack-side", {"C08"}, (KMPEC, "<= self.solver.quicksum(self.gamma_vars[(u, v, i)] for i in range(self.k)),\n                name=f\"9aa_u={u}_v={v}_i={i}\",", "<= self.solver.quicksum(self.gamma_vars[(u, v, i)] for i in range(self.k - 1)),\n                name=f\"9aa_u={u}_v={v}_i={i}\",", 1))
v("c08-objective-max", {"C08"}, (KMPE, "self.solver.quicksum(self.path_slacks_vars[(i)] for i in range(self.k)), sense=\"minimize\"", "self.solver.quicksum(self.path_slacks_vars[(i)] for i in range(self.k)), sense=\"maximize\"", 1))
v("c08-path-length-not-switched-on", {"C08"}, (KMPE, "            encode_path_length=True,\n", "            encode_path_length=False,\n", 1))
v("c08-k-none-before-scale0", {"C08"}, (KMPE, "            self.k = self.G.get_width(list(self.edges_to_ignore))", "            self.k = self.G.get_width(list(edges_to_ignore_internal))", 1))
# ----------------------------------------------------------------------------------------------- C10 / C11
v("c10-7b-dropped", {"C10", "C05"}, (AP, "                    self.solver.quicksum(self.subpaths_vars[(i, j)] for i in range(self.k)) >= 1,", "                    self.solver.quicksum(self.subpaths_vars[(i, j)] for i in range(self.k)) >= 0,", 1))
v("c10-scale0-not-ignored", {"C10"}, (KLAEC, "        self.edges_to_ignore |= {edge for edge, factor in self.edge_error_scaling.items() if factor == 0}\n", "", 1))
v("c10-starts-ends-swapped", {"C10", "C01"}, (SSG, "if self.base_graph.in_degree(u) == 0 or u in self.additional_starts:", "if self.base_graph.in_degree(u) == 0 or u in self.additional_ends:", 1))
v("c10-greedy-rejection-inverted", {"C10", "C02"}, (KFD, "< constraint_length * coverage_fraction:\n                    return False", "> constraint_length * coverage_fraction:\n                    return False", 1))
v("c11-raw-constraints-to-base", {"C11"}, (KLAE, "        self.subpath_constraints = subpath_constraints_internal\n", "        self.subpath_constraints = subpath_constraints\n", 1))
v("c11-reader-strip-wrong-length", {"C11", "C01"}, (NED, "                node = path[i][:-2]", "                node = path[i][:-1]", 1))
v("c11-missing-attr-not-ignored", {"C11"}, (NED, "            else:\n                self._edges_to_ignore.append((node0, node1))\n", "", 1))
v("c11-id-plus-str", {"C11"}, (KPCC, "node_flow_attr = str(id(G_with_flow_attr)) + \"_flow_attr\"", "node_flow_attr = id(G_with_flow_attr) + \"_flow_attr\"", 1))
# ----------------------------------------------------------------------------------------------- C12
v("c12-mccormick-row-c-wrong", {"C12"}, (SW, "product_var <= continuous_var - lb * (1 - binary_var)", "product_var <= continuous_var - lb * binary_var", 1))
v("c12-mccormick-row-a-dropped", {"C12"}, (SW, "        self.add_constraint(product_var <= ub * binary_var, name=name + \"_a\")\n", "", 1))
v("c12-bits-different-sets", {"C12"}, (SW, "self.quicksum(comp_vars[i] * 2**i for i in bits) \n            == product_var", "self.quicksum(comp_vars[i] * 2**i for i in bits[:-1]) \n            == product_var", 1))
v("c12-piecewise-y-bigM", {"C12"}, (SW, "        M_y = (max(constants) - min(constants)) * 2\n", "        M_y = (max(constants) - min(constants)) / 2\n", 1))
v("c12-onehot-geq", {"C12"}, (SW, "self.quicksum(z[i] for i in range(pieces)) == 1", "self.quicksum(z[i] for i in range(pieces)) >= 1", 1))
v("c12-objective-reset-dropped", {"C12"}, (SW, "            # reset objective\n            super().changeColsCost(\n                self.numVariables,\n                np.arange(self.numVariables, dtype=np.int32),\n                np.full(self.numVariables, 0, dtype=np.float64),\n            )\n", "", 1))
v("c12-getcols-order", {"C12"}, (SW, "status, nret, costs, lowers, uppers, nnz = self.solver.getCols(len(idxs), idxs)", "status, nret, lowers, uppers, costs, nnz = self.solver.getCols(len(idxs), idxs)", 1))
v("c12-queues-not-cleared", {"C12"}, (SW, "            self._pending_lb_vals.clear()\n", "", 1))
v("c12-apply-after-run", {"C12"}, (SW, "        self._apply_pending_bound_updates()\n\n        if self.external_solver == \"highs\":\n            # HiGHS keeps one scheduler", "        if self.external_solver == \"highs\":\n            # HiGHS keeps one scheduler", 1))
# ----------------------------------------------------------------------------------------------- C13
v("c13-status-widened", {"C13"}, (AP, "            self.solver.get_model_status() == \"kOptimal\"\n            or self.solver.get_model_status() == 2", "            self.solver.get_model_status() in (\"kOptimal\", \"kTimeLimit\")\n            or self.solver.get_model_status() == 2", 1))
v("c13-getter-unguarded", {"C13"}, (KPCC, "        if self._solution is None:\n            self.check_is_solved()\n", "        if self._solution is None:\n", 1))
v("c13-timeout-ignored", {"C13"}, (SW, "        if self.did_timeout:\n            return \"kTimeLimit\"\n", "", 1))
v("c13-numpaths-publishes-unsolved", {"C13"}, (NPO, "            else:\n                utils.logger.info(f\"{__name__}: model id = {id(self)}, iteration with k = {k}, model is not solved\")", "            else:\n                solve_status = NumPathsOptimization.solved_status_name\n                utils.logger.info(f\"{__name__}: model id = {id(self)}, iteration with k = {k}, model is not solved\")", 1))
v("c13-stale-cache", {"C13", "C16"}, (MEF, "                # The cached solution belongs to the first model: it must not survive the re-solve below\n                self._solution = None\n", "", 1))
v("c13-swallowing-handler", {"C13"}, (MGS, "            self.solver.optimize()\n\n            if self.solver.get_model_status() == \"kOptimal\":", "            try:\n                self.solver.optimize()\n            except Exception:\n                pass\n\n            if self.solver.get_model_status() == \"kOptimal\":", 1))
# ----------------------------------------------------------------------------------------------- C14
v("c14-walk-append-dropped", {"C14", "C02"}, (AW, "            current_vertex = next_vertex\n            walk.append(current_vertex)", "            current_vertex = next_vertex", 1))
v("c14-multiplicity-not-rounded", {"C14", "C02"}, (AW, "multiplicity = round(self.edge_vars_sol[edge_key])", "multiplicity = int(self.edge_vars_sol[edge_key])", 1))
v("c14-splice-keeps-duplicate", {"C14", "C02"}, (AW, "walk[closed_walk_start_idx + 1:closed_walk_start_idx + 1] = closed_walk[1:]", "walk[closed_walk_start_idx + 1:closed_walk_start_idx + 1] = closed_walk", 1))
# ----------------------------------------------------------------------------------------------- C16 / C17 / C18
v("c16-conservation-skip", {"C16"}, (MEF, "            if self.G.in_degree(node) == 0 or self.G.out_degree(node) == 0:\n                continue\n            # Flow conservation constraint", "            if self.G.in_degree(node) <= 1 or self.G.out_degree(node) == 0:\n                continue\n            # Flow conservation constraint", 1))
v("c16-negative-lb", {"C16"}, (MEF, "            name_prefix=\"edge_vars\", \n            lb=0, ", "            name_prefix=\"edge_vars\", \n            lb=-1, ", 1))
v("c16-graph-not-copied", {"C16"}, (MEF, "        corrected_graph = deepcopy(self.original_graph_copy)", "        corrected_graph = self.original_graph_copy", 1))
v("c17-cache-foreign-writer", {"C17"}, (STG, "        self._nodes_reaching_node_cache[node] = result\n        return result", "        self._nodes_reaching_node_cache[node] = result\n        self._nodes_reachable_from_node_cache[node] = result\n        return result", 1))
v("c17-freeze-dropped", {"C17"}, (SSG, "        nx.freeze(self)\n", "        pass\n", 1))
v("c18-class-attr-store", {"C18"}, (KFD, "        self.optimize_with_greedy = self.optimization_options.get(\"optimize_with_greedy\", kFlowDecomp.optimize_with_greedy)", "        kFlowDecomp.optimize_with_greedy = self.optimization_options.get(\"optimize_with_greedy\", kFlowDecomp.optimize_with_greedy)\n        self.optimize_with_greedy = kFlowDecomp.optimize_with_greedy", 1))
v("c18-options-alias", {"C18", "C07"}, (KLAE, "self.optimization_options = optimization_options.copy() if optimization_options else {}", "self.optimization_options = optimization_options or {}", 1))
v("c18-remove-empty-in-place", {"C18"}, (KLAEC, "        solution_copy = copy.deepcopy(solution)", "        solution_copy = solution", 1))
# ----------------------------------------------------------------------------------------------- C19 / C20
v("c19-k-check-dropped", {"C19"}, (AW, "        if k <= 0:\n            utils.logger.error(f\"{__name__}: k must be positive, got {k}.\")\n            raise ValueError(f\"k must be positive, got {k}.\")\n", "", 1))
v("c19-typeerror", {"C19"}, (KLAE, "            raise ValueError(f\"weight_type must be either int or float, not {weight_type}\")", "            raise TypeError(f\"weight_type must be either int or float, not {weight_type}\")", 1))
v("c19-dag-check-skipped-for-small", {"C19"}, (STD, "        if not nx.is_directed_acyclic_graph(self.base_graph):", "        if self.base_graph.number_of_nodes() > 2 and not nx.is_directed_acyclic_graph(self.base_graph):", 1))
v("c19-wrapper-drops-weight-type", {"C19"}, (MFD, "                    weight_type=self.weight_type,\n                    subpath_constraints=self.subpath_constraints,\n                    subpath_constraints_coverage=self.subpath_constraints_coverage,\n                    subpath_constraints_coverage_length=self.subpath_constraints_coverage_length,\n                    length_attr=self.length_attr,\n                    elements_to_ignore=self.edges_to_ignore,\n                    optimization_options=self.optimization_options,",
                                                "                    subpath_constraints=self.subpath_constraints,\n                    subpath_constraints_coverage=self.subpath_constraints_coverage,\n                    subpath_constraints_coverage_length=self.subpath_constraints_coverage_length,\n                    length_attr=self.length_attr,\n                    elements_to_ignore=self.edges_to_ignore,\n                    optimization_options=self.optimization_options,", 1))
v("c20-arity-check-dropped", {"C20"}, (GU, "        if len(elements) != 3:\n            utils.logger.error(f\"{__name__}: Invalid edge format: {line.rstrip()}\")\n            raise ValueError(f\"Invalid edge format: {line.rstrip()}\")\n", "        if len(elements) < 3:\n            continue\n", 1))
v("c20-weight-error-swallowed", {"C20"}, (GU, "            utils.logger.error(f\"{__name__}: Invalid weight value in edge: {line.rstrip()}\")\n            raise\n", "            utils.logger.error(f\"{__name__}: Invalid weight value in edge: {line.rstrip()}\")\n            continue\n", 1))
v("c20-counts-before-edges", {"C20"}, (GU, "    G.graph[\"m\"] = G.number_of_edges()\n", "    G.graph[\"m\"] = n\n", 1))


# ----------------------------------------------------------------------------------------------- benign
def reformat_all(root):
    """ast.unparse every module: all line numbers, quotes, parentheses and comments change; behaviour does not."""
    for dp, dn, fn in os.walk(os.path.join(root, "flowpaths")):
        for f in fn:
            if f.endswith(".py"):
                p = os.path.join(dp, f)
                import warnings
                with warnings.catch_warnings():
                    warnings.simplefilter("ignore")
                    src = open(p).read()
                    open(p, "w").write(ast.unparse(ast.parse(src)) + "\n")


def shift_lines(root):
    for dp, dn, fn in os.walk(os.path.join(root, "flowpaths")):
        for f in fn:
            if f.endswith(".py"):
                p = os.path.join(dp, f)
                src = open(p).read()
                open(p, "w").write("# shifted\n\n\n" + src)


V.append(("benign-reformat-all-modules", B, [reformat_all]))
V.append(("benign-shift-all-lines", B, [shift_lines]))
v("benign-rename-local-f_u_v", B, (KFD, "f_u_v", "flow_uv", 4))
v("benign-swap-sides-10d", B, (KFDC, "self.solver.quicksum(self.pi_vars[(u, v, i)] for i in range(self.k)) == f_u_v,", "f_u_v == self.solver.quicksum(self.pi_vars[(u, v, i)] for i in range(self.k)),", 1))
v("benign-continue-to-if-not", B, (KPCC, "            if (u, v) in self.edges_to_ignore:\n                continue\n", "            if (u, v) in self.edges_to_ignore:\n                pass\n                continue\n", 1))
v("benign-rename-loop-var", B, (AW, "        for i in range(self.k):\n            self.solver.add_constraint(\n                self.distance_vars[(self.G.source, i)] == 1,\n                name=f\"18a_i={i}\",\n            )",
                                "        for layer in range(self.k):\n            self.solver.add_constraint(\n                self.distance_vars[(self.G.source, layer)] == 1,\n                name=f\"18a_i={layer}\",\n            )", 1))
v("benign-constraint-name-changed", B, (KPC, "name=f\"cover_u={u}_v={v}\",", "name=f\"edge_cover_{u}_{v}\",", 1))
v("benign-status-test-restyled", B, (MPC, "            elif model.solver.get_model_status() != sw.SolverWrapper.infeasible_status:\n", "            elif not (model.solver.get_model_status() == \"kInfeasible\"):\n", 1))
v("benign-copy-style", B, (KPC, "self.optimization_options = optimization_options.copy() if optimization_options else {}", "self.optimization_options = dict(optimization_options) if optimization_options else {}", 1))
v("benign-range-bound-generous", B, (MPCC, "self.G.number_of_edges() + len(self.subset_constraints) + 1):", "self.G.number_of_edges() + len(self.subset_constraints) + 2):", 1))
v("benign-local-for-lowerbound", B, (MPC, "        for i in range(max(1, self.get_lowerbound_k()), self.G.number_of_edges() + len(self.subpath_constraints) + 1):", "        first_k = max(1, self.get_lowerbound_k())\n        for i in range(first_k, self.G.number_of_edges() + len(self.subpath_constraints) + 1):", 1))
v("benign-mccormick-rows-reordered", B, (SW, "        self.add_constraint(product_var <= ub * binary_var, name=name + \"_a\")\n        self.add_constraint(product_var >= lb * binary_var, name=name + \"_b\")\n",
                                           "        self.add_constraint(product_var >= lb * binary_var, name=name + \"_b\")\n        self.add_constraint(ub * binary_var >= product_var, name=name + \"_a\")\n", 1))
v("benign-extra-logging", B, (MFD, "            utils.logger.info(f\"{__name__}: iteration with k = {i}\")\n", "            utils.logger.info(f\"{__name__}: iteration with k = {i}\")\n            utils.logger.debug(f\"{__name__}: still searching\")\n", 1))
v("benign-value-local-in-validation", B, (SSG, "            if not (data[flow_attr] >= 0) or data[flow_attr] == float(\"inf\"):\n", "            value_here = data[flow_attr]\n            if not (value_here >= 0) or value_here == float(\"inf\"):\n", 1))
v("benign-edge-attr-idiom", B, (KFD, "        for u, v, data in self.G.edges(data=True):\n            if (u, v) in self.edges_to_ignore:\n                continue\n            # float(): the solver's `==` accepts Python numbers only, not numpy integer or float32 scalars\n            f_u_v = float(data[self.flow_attr])\n\n            self.solver.add_constraint(\n                self.solver.quicksum(float(self.solution_weights_superset[i])",
                                  "        for u, v in self.G.edges():\n            if (u, v) in self.edges_to_ignore:\n                continue\n            f_u_v = float(self.G[u][v][self.flow_attr])\n\n            self.solver.add_constraint(\n                self.solver.quicksum(float(self.solution_weights_superset[i])", 1))
# --- reader / translators / flow-safety threshold (round-2 seeds generalised)
v("benign-reader-renamed-locals", B, (NED, "            for i in range(0, len(path) - 1, 2):\n                # Raise an error if the last two symbols of path[i] are not '.0'\n                if path[i][-2:] != '.0':",
                                        "            for pos in range(0, len(path), 2):\n                i = pos\n                if path[i][-2:] != '.0':", 1))
v("c11-reader-step-one", {"C11", "C02", "C14"}, (NED, "            for i in range(0, len(path) - 1, 2):", "            for i in range(0, len(path) - 1, 1):", 1))
v("c11-reader-stops-early", {"C11", "C02"}, (NED, "            for i in range(0, len(path) - 1, 2):", "            for i in range(0, len(path) - 3, 2):", 1))
v("c11-reader-dedup-guard", {"C11", "C02", "C14"}, (NED, "                if node not in [self.global_source_id, self.global_sink_id]:\n                    condensed_path.append(node)",
                                                     "                if node not in [self.global_source_id, self.global_sink_id] and node not in condensed_path:\n                    condensed_path.append(node)", 1))
v("c11-translator-filters-constraint-nodes", {"C11", "C03", "C10"}, (NED, "                expanded_constraint.append((node + '.0', node + '.1'))",
                                                                      "                if self.node_flow_attr in self.original_G.nodes[node]:\n                    expanded_constraint.append((node + '.0', node + '.1'))", 1))
v("c11-translator-filters-starts", {"C11", "C10"}, (NED, "        return [self.get_expanded_edge(node)[0] for node in additional_starts]", "        return [self.get_expanded_edge(node)[0] for node in additional_starts if self.original_G.in_degree(node) > 0]", 1))
# (since the record guard `inexact_excess > 1e-9` exists, the stop test alone no longer decides safety: strict is property-preserving, both relaxed is not)
v("benign-flow-safety-threshold-strict-under-record-guard", B, ("flowpaths/utils/safetyflowdecomp.py", "if inexact_excess + rightdiff <= excess_tolerance:", "if inexact_excess + rightdiff < 0:", 1))
v("c06-flow-safety-threshold-strict", {"C06", "C05"}, ("flowpaths/utils/safetyflowdecomp.py", "if inexact_excess + rightdiff <= excess_tolerance:", "if inexact_excess + rightdiff < 0:", 1),
  ("flowpaths/utils/safetyflowdecomp.py", "if path_not_suffix_of_previous and inexact_excess > excess_tolerance:", "if path_not_suffix_of_previous and inexact_excess >= 0:", 1))
v("c06-flow-safety-absolute-tolerance-again", {"C06", "C05"}, ("flowpaths/utils/safetyflowdecomp.py", "if path_not_suffix_of_previous and inexact_excess > excess_tolerance:", "if path_not_suffix_of_previous and inexact_excess > 1e-9:", 1))
v("c06-flow-safety-assert-exact-floats", {"C06", "C05"}, ("flowpaths/utils/safetyflowdecomp.py", "        return value if isinstance(value, int) else Fraction(*value.as_integer_ratio()) if hasattr(value, \"as_integer_ratio\") else Fraction(value)", "        return value", 2),
  ("flowpaths/utils/safetyflowdecomp.py", "                assert abs(inexact_excess) <= excess_tolerance\n", "                assert inexact_excess == 0\n", 1))
v("benign-flow-safety-threshold-restyled", B, ("flowpaths/utils/safetyflowdecomp.py", "if inexact_excess + rightdiff <= excess_tolerance:", "if excess_tolerance >= rightdiff + inexact_excess:", 1))
# --- C17.R4 reachability DP direction
SDAG = "flowpaths/stdag.py"
SDG = "flowpaths/stdigraph.py"
v("c17-dp-wrong-order", {"C17"}, (SDAG, "            for node in self.topological_order_rev:\n                for v in self.successors(node):\n                    self._reachable_nodes_from[node] |= self._reachable_nodes_from[v]",
                                   "            for node in self.topological_order:\n                for v in self.successors(node):\n                    self._reachable_nodes_from[node] |= self._reachable_nodes_from[v]", 1))
v("c17-dp-edge-orientation", {"C17"}, (SDAG, "self._reachable_edges_rev_from[node] |= {(v, node)}", "self._reachable_edges_rev_from[node] |= {(node, v)}", 1))
v("c17-dp-seed-empty", {"C17"}, (SDAG, "self._nodes_reaching = {node:{node} for node in self.nodes()}", "self._nodes_reaching = {node:set() for node in self.nodes()}", 1))
v("c17-reaching-uses-descendants", {"C17"}, (SDG, "ancestor_sccs = set(nx.ancestors(C, cu)) | {cu}", "ancestor_sccs = set(nx.descendants(C, cu)) | {cu}", 1))
v("c17-reachable-excludes-own-scc", {"C17"}, (SDG, "reachable_sccs = set(nx.descendants(C, cv)) | {cv}", "reachable_sccs = set(nx.descendants(C, cv))", 1))
v("benign-dp-renamed", B, (SDAG, "            for node in self.topological_order_rev:\n                for v in self.successors(node):\n                    self._reachable_nodes_from[node] |= self._reachable_nodes_from[v]",
                           "            for x in self.topological_order_rev:\n                for succ in self.successors(x):\n                    self._reachable_nodes_from[x] |= self._reachable_nodes_from[succ]", 1))
# --- C19.R4 conservation validator body
GU = "flowpaths/utils/graphutils.py"
v("c19-conservation-extra-exemption", {"C19"}, (GU, "        if G.out_degree(v) == 0 or G.in_degree(v) == 0:\n            continue\n\n        out_flow = 0", "        if G.out_degree(v) <= 1 or G.in_degree(v) == 0:\n            continue\n\n        out_flow = 0", 1))
v("c19-conservation-one-sided", {"C19"}, (GU, "        elif not abs(out_flow - in_flow) <= 4 * (G.in_degree(v) + G.out_degree(v)) * math.ulp(max(abs(float(out_flow)), abs(float(in_flow)))):\n            return False", "        elif out_flow > in_flow:\n            return False", 1))
v("c19-conservation-exact", {"C19"}, (GU, "        elif not abs(out_flow - in_flow) <= 4 * (G.in_degree(v) + G.out_degree(v)) * math.ulp(max(abs(float(out_flow)), abs(float(in_flow)))):\n            return False", "        elif out_flow != in_flow:\n            return False", 1))
v("c19-conservation-loose", {"C19"}, (GU, "        elif not abs(out_flow - in_flow) <= 4 * (G.in_degree(v) + G.out_degree(v)) * math.ulp(max(abs(float(out_flow)), abs(float(in_flow)))):\n            return False", "        elif not math.isclose(out_flow, in_flow, rel_tol=1e-9, abs_tol=1e-9):\n            return False", 1))
v("c19-conservation-early-accept", {"C19"}, (GU, "            return False\n\n    return True", "            return False\n        return True\n\n    return True", 1))
v("benign-conservation-renamed", B, (GU, "        elif not abs(out_flow - in_flow) <= 4 * (G.in_degree(v) + G.out_degree(v)) * math.ulp(max(abs(float(out_flow)), abs(float(in_flow)))):\n            return False", "        elif not abs(in_flow - out_flow) <= 4 * (G.out_degree(v) + G.in_degree(v)) * math.ulp(max(abs(float(in_flow)), abs(float(out_flow)))):\n            return False", 1))
# --- C17.R5 / C02.R8 peeling
v("c17-peel-skips-last-edge", {"C17", "C02"}, (SDAG, "            for i in range(len(path) - 1):\n", "            for i in range(len(path) - 2):\n", 1))
v("c17-peel-max-instead-of-min", {"C17", "C02"}, (GU, "uBottleneck = min(B[u], G.edges[u, v][flow_attr])", "uBottleneck = max(B[u], G.edges[u, v][flow_attr])", 1))
v("c17-peel-predecessor-outside-update", {"C17", "C02"}, (GU, "                if uBottleneck > B[v]:\n                    B[v] = uBottleneck\n                    maxInNeighbor[v] = u", "                if uBottleneck > B[v]:\n                    B[v] = uBottleneck\n                maxInNeighbor[v] = u", 1))
v("c17-peel-on-self", {"C17", "C02"}, (SDAG, "            bottleneck, path = graphutils.max_bottleneck_path(temp_G, flow_attr)", "            bottleneck, path = graphutils.max_bottleneck_path(self, flow_attr)", 1))
v("benign-peel-renamed", B, (SDAG, "                temp_G[path[i]][path[i + 1]][flow_attr] = temp_G[path[i]][path[i + 1]][flow_attr] - bottleneck", "                remaining = temp_G[path[i]][path[i + 1]][flow_attr]\n                temp_G[path[i]][path[i + 1]][flow_attr] = remaining - bottleneck", 1))
# --- decomposition-level benign edits (sa/inline)
v("benign-rename-private-encoder", B, (KFD, "_encode_flow_decomposition_with_given_weights", "_encode_decomposition_with_given_weights", 2))
v("benign-extract-objective-helper", B, (KPC, "    def get_solution(self):", "    def _noop_helper(self, x):\n        y = x\n        return y\n\n    def get_solution(self):", 1))
# --- rules added after the defect hunts (reverts/ holds the break side: the reverse of every repair); shapes the rules must accept
v("benign-cap-guard-reordered", B, (KFDC, "            (u, v): (data[self.flow_attr] if self.flow_attr in data and (u, v) not in self.edges_to_ignore else ignored_edge_bound)\n",
                                   "            (u, v): (ignored_edge_bound if (u, v) in self.edges_to_ignore or self.flow_attr not in data else data[self.flow_attr])\n", 1))
v("c10-cap-guard-dropped-again", {"C10", "C04"}, (KFDC, "            (u, v): (data[self.flow_attr] if self.flow_attr in data and (u, v) not in self.edges_to_ignore else ignored_edge_bound)\n",
                                              "            (u, v): (data[self.flow_attr] if self.flow_attr in data else ignored_edge_bound)\n", 1))
v("benign-emptiness-ifexp", B, (KFD, "        internal_paths = solution.get(\"_paths_internal\", solution[\"paths\"])\n",
                                "        internal_paths = solution[\"_paths_internal\"] if \"_paths_internal\" in solution else solution[\"paths\"]\n", 1))
v("c01-emptiness-on-condensed", {"C01", "C02"}, (KFD, "            if len(internal_path) > 0:\n                non_empty_internal.append(internal_path)\n",
                                               "            if len(path) > 0:\n                non_empty_internal.append(internal_path)\n", 1))
v("benign-nan-proof-other-spelling", B, (AP, "            if not (0 < self.subpath_constraints_coverage <= 1):", "            if not (self.subpath_constraints_coverage > 0 and self.subpath_constraints_coverage <= 1):", 1))
v("c19-nan-range-again", {"C19"}, (AW, "            if not (0 < self.subset_constraints_coverage <= 1):", "            if self.subset_constraints_coverage <= 0 or self.subset_constraints_coverage > 1:", 1))
v("benign-threads-reset-local", B, (SW, "            if SolverWrapper._highs_scheduler_threads not in (None, self.threads):\n                highspy.Highs.resetGlobalScheduler(True)\n",
                                   "            if SolverWrapper._highs_scheduler_threads is not None and SolverWrapper._highs_scheduler_threads != self.threads:\n                highspy.Highs.resetGlobalScheduler(True)\n", 1))
v("c18-scheduler-mirror-misused", {"C18"}, (SW, "            SolverWrapper._highs_scheduler_threads = self.threads\n",
                                           "            SolverWrapper._highs_scheduler_threads = self.threads\n            self.threads = SolverWrapper._highs_scheduler_threads or self.threads\n", 1))
v("c13-reset-after-run", {"C13"}, (AP, "        # What was read from a previous run of the solver is not the solution of this run\n        self._solution = None\n        self.edge_vars_sol = {}\n        self.solver.optimize()\n",
                                   "        self.solver.optimize()\n", 1))
v("benign-reset-order", B, (AP, "        self._solution = None\n        self.edge_vars_sol = {}\n        self.solver.optimize()\n", "        self.edge_vars_sol = {}\n        self._solution = None\n        self.solver.optimize()\n", 1))
v("c15-truncate-again", {"C15"}, (MGS, "sorted(round(genset_sol[i]) if self.weight_type == int else float(genset_sol[i]) for i in range(k))", "sorted(int(genset_sol[i]) if self.weight_type == int else float(genset_sol[i]) for i in range(k))", 1))
v("benign-threshold-spelling", B, (MSC, "if subset_cover_sol[i] > 0.5]", "if subset_cover_sol[i] >= 0.5]", 1))
v("c17-supply-constant-again", {"C17"}, (GU, "    supply = max(bigNumber, sum(G[x][y][demands_attr] for x, y in G.edges()) + 1)\n", "    supply = bigNumber\n", 1))
v("benign-supply-two-steps", B, (GU, "    supply = max(bigNumber, sum(G[x][y][demands_attr] for x, y in G.edges()) + 1)\n",
                                "    total_demand = sum(G[x][y][demands_attr] for x, y in G.edges())\n    supply = max(bigNumber, total_demand + 1)\n", 1))
v("c20-early-return-again", {"C20"}, (GU, "    # Parse edges: skip blanks and comment/header lines defensively\n", "    if n == 0:\n        return G\n\n    # Parse edges: skip blanks and comment/header lines defensively\n", 1))
v("c16-error-from-variables-again", {"C16"}, (MEF, "        error = sum(\n            abs((int(data[self.flow_attr]) if isinstance(data[self.flow_attr], numbers.Integral) else float(data[self.flow_attr])) - self.edge_sol[(u, v)])\n            for u, v, data in self.G.edges(data=True)\n            if (u, v) not in self.edges_to_ignore\n        )\n",
                                             "        error = sum(self.solver.get_values(self.edge_error_vars).values())\n", 1))
v("c05-greedy-with-superset-again", {"C05"}, (KFD, " and satisfies_flow_conservation and solution_weights_superset is None:", " and satisfies_flow_conservation:", 1))
v("c11-length-attr-dropped-again", {"C11", "C10"}, (KPC, "node_flow_attr=node_flow_attr, node_length_attr=length_attr)", "node_flow_attr=node_flow_attr)", 1))
# --- round 3
v("benign-options-none-or", B, ("flowpaths/minsetcover.py", "        self.solver_options = solver_options if solver_options is not None else {}", "        self.solver_options = solver_options or {}", 1))
v("benign-options-none-ifstmt", B, ("flowpaths/mingenset.py", "        self.solver_options = solver_options if solver_options is not None else {}", "        if solver_options is None:\n            solver_options = {}\n        self.solver_options = solver_options", 1))
v("c19-options-raw-again", {"C19"}, ("flowpaths/minsetcover.py", "        self.solver_options = solver_options if solver_options is not None else {}", "        self.solver_options = solver_options", 1))
v("benign-mingenset-start-validated", B, ("flowpaths/mingenset.py", "        for k in range(max(1, self.lowerbound), ", "        for k in range(max(self.lowerbound, 1), ", 1))
v("c15-mingenset-start-raw", {"C15"}, ("flowpaths/mingenset.py", "        for k in range(max(1, self.lowerbound), ", "        for k in range(self.lowerbound, ", 1))
v("c15-mingenset-start-clamped-to-zero", {"C15"}, ("flowpaths/mingenset.py", "        for k in range(max(1, self.lowerbound), ", "        for k in range(max(0, self.lowerbound), ", 1))
v("benign-conservation-int-branch-restyled", B, (GU, "            out_flow += int(data[flow_attr]) if isinstance(data[flow_attr], numbers.Integral) else data[flow_attr]", "            value = data[flow_attr]\n            out_flow += int(value) if isinstance(value, numbers.Integral) else value", 1))
v("c19-conservation-raw-sum", {"C19"}, (GU, "            out_flow += int(data[flow_attr]) if isinstance(data[flow_attr], numbers.Integral) else data[flow_attr]", "            out_flow += data[flow_attr]", 1))
v("benign-antichain-fraction-import-style", B, ("flowpaths/stdag.py", "                    edge_demand = Fraction(float(edge_demand))", "                    edge_demand = Fraction(edge_demand)", 1))
v("c17-antichain-demand-rounded", {"C17"}, ("flowpaths/stdag.py", "                    edge_demand = Fraction(float(edge_demand))", "                    edge_demand = int(edge_demand)", 1))
# --- round 5 (hunt 5) rules
MFD = "flowpaths/minflowdecomp.py"
v("c15-source-flow-raw-sum", {"C15"}, (MFD, "                            self._source_flow += data[self.flow_attr].item() if hasattr(data[self.flow_attr], \"item\") else data[self.flow_attr]", "                            self._source_flow += data[self.flow_attr]", 1))
v("benign-source-flow-local", B, (MFD, "                            self._source_flow += data[self.flow_attr].item() if hasattr(data[self.flow_attr], \"item\") else data[self.flow_attr]", "                            flow_value = data[self.flow_attr]\n                            self._source_flow += flow_value.item() if hasattr(flow_value, \"item\") else flow_value", 1))
v("c19-tolerance-nan-passes", {"C19"}, ("flowpaths/utils/solverwrapper.py", "        if not (self.tolerance >= 1e-9):", "        if self.tolerance < 1e-9:", 1))
v("benign-tolerance-check-restyled", B, ("flowpaths/utils/solverwrapper.py", "        if not (self.tolerance >= 1e-9):", "        if not (1e-9 <= self.tolerance):", 1))
v("c19-mfd-mingenset-guard-nan-blind", {"C19"}, (MFD, "        if any(not (0 <= self.G.edges[e][self.flow_attr] < float(\"inf\")) for e in self.G.edges):", "        if any(self.G.edges[e][self.flow_attr] < 0 for e in self.G.edges):", 1))
v("c19-mfd-mingenset-guard-inf-blind", {"C19"}, (MFD, "        if any(not (0 <= self.G.edges[e][self.flow_attr] < float(\"inf\")) for e in self.G.edges):", "        if any(not (self.G.edges[e][self.flow_attr] >= 0) for e in self.G.edges):", 1))
v("benign-mfd-mingenset-guard-isfinite", B, (MFD, "        if any(not (0 <= self.G.edges[e][self.flow_attr] < float(\"inf\")) for e in self.G.edges):", "        if any(not math.isfinite(self.G.edges[e][self.flow_attr]) or self.G.edges[e][self.flow_attr] < 0 for e in self.G.edges):", 1))
v("c19-mfd-int-of-infinite", {"C19"}, (MFD, " and e not in self.edges_to_ignore and math.isfinite(self.G.edges[e][self.flow_attr])})", " and e not in self.edges_to_ignore})", 1))
v("c19-original-k-raw", {"C19"}, ("flowpaths/kminpatherror.py", ") <= int(self.original_k),", ") <= self.original_k,", 1))
v("c16-wmax-over-ignored", {"C16", "C10"}, ("flowpaths/minerrorflow.py", "                if (u, v) not in self.edges_to_ignore\n            ] + [0]", "            ] + [0]", 1))
v("c12-product-helper-raw-bounds", {"C12"}, ("flowpaths/utils/solverwrapper.py", "        lb, ub = float(lb), float(ub)\n", "", 1))
v("c15-setcover-logger-member", {"C15"}, ("flowpaths/minsetcover.py", "            utils.logger.error(f\"{__name__}: Model not yet solved.", "            self.solver.logger.error(f\"{__name__}: Model not yet solved.", 1))

v("c19-mfd-window-filter-unguarded", {"C19"}, (MFD, "                if isinstance(c, list) and all(isinstance(e, tuple) and len(e) == 2 and e in subgraph.edges for e in c)", "                if all(e in subgraph.edges for e in c)", 1))
v("c11-subgraph-attrs-unpacked", {"C11"}, (GU, "            subgraph.add_edge(u, v)\n            subgraph[u][v].update(graph[u][v])", "            subgraph.add_edge(u, v, **graph[u][v])", 1))
v("c07-constraint-length-raw-sum", {"C07"}, ("flowpaths/abstractpathmodeldag.py", "                        constraint_length = sum(float(self.G[u][v].get(self.length_attr, 1)) for (u,v) in self.subpath_constraints[j])", "                        constraint_length = sum(self.G[u][v].get(self.length_attr, 1) for (u,v) in self.subpath_constraints[j])", 1))
v("c07-given-weights-threshold-too-small", {"C07"}, ("flowpaths/kleastabserrors.py", "[weight if weight > 1e-9 else 0 for weight in self.solution_weights_superset]", "[weight if weight > 1e-12 else 0 for weight in self.solution_weights_superset]", 1))
v("benign-given-weights-threshold-restyled", B, ("flowpaths/kleastabserrors.py", "[weight if weight > 1e-9 else 0 for weight in self.solution_weights_superset]", "[0 if w <= 1e-9 else w for w in self.solution_weights_superset]", 1))
v("c15-mfdc-multiplicity-guard-dropped", {"C15"}, ("flowpaths/minflowdecompcycles.py", "        if self.w_max < 1:\n            return None\n", "", 1))
v("c02-readers-fraction-of-longdouble", {"C02"}, ("flowpaths/utils/safetyflowdecomp.py", "Fraction(*value.as_integer_ratio()) if hasattr(value, \"as_integer_ratio\") else Fraction(value)", "Fraction(value)", 2))
v("c15-trivial-removal-too-wide", {"C15"}, ("flowpaths/mingenset.py", "                if val == total or val == 0:", "                if val >= total or val == 0:", 1))
v("benign-trivial-removal-restyled", B, ("flowpaths/mingenset.py", "                if val == total or val == 0:", "                if val in (0, total):", 1))
v("benign-given-weights-threshold-named", B, ("flowpaths/kleastabserrors.py", "            self.solution_weights_superset = [weight if weight > 1e-9 else 0 for weight in self.solution_weights_superset]", "            smallest_coefficient = 1e-9\n            self.solution_weights_superset = [weight if weight > smallest_coefficient else 0 for weight in self.solution_weights_superset]", 1))
v("c08-given-weights-pruned-above-max-flow", {"C08"}, ("flowpaths/kminpatherror.py", "            self.solution_weights_superset = [weight if weight > 1e-9 else 0 for weight in self.solution_weights_superset]", "            self.solution_weights_superset = [weight if 1e-9 < weight <= self.k * 1000 else 0 for weight in self.solution_weights_superset]", 1))
# --- round-6 seeds / hunt-6 rules
v("c01-greedy-weights-padded-by-paths-deficit", {"C01", "C02"}, (KFD, "            weights += [self.weight_type(0) for _ in range(self.k - len(weights))]", "            weights += [self.weight_type(0) for _ in range(self.k - len(paths))]", 1))
v("benign-greedy-padding-restyled", B, (KFD, "            weights += [self.weight_type(0) for _ in range(self.k - len(weights))]", "            weights += [self.weight_type(0)] * (self.k - len(weights))", 1))
v("c20-duplicate-lines-by-edge-set", {"C20"}, (GU, "                seq_key = tuple(nodes_seq)", "                seq_key = frozenset(zip(nodes_seq, nodes_seq[1:]))", 1))
v("benign-duplicate-lines-by-text", B, (GU, "                seq_key = tuple(nodes_seq)", "                seq_key = \" \".join(nodes_seq)", 1))
v("c18-run-clock-started-once", {"C18"}, ("flowpaths/minpathcover.py", "        self.solve_time_start = time.perf_counter()", "        if self.solve_time_start is None:\n            self.solve_time_start = time.perf_counter()", 1))
v("c07-objective-raw-scaling-factor", {"C07"}, ("flowpaths/kleastabserrorscycles.py", "        return sum(error * float(self.edge_error_scaling.get(edge, 1)) for edge, error in edge_errors.items())", "        return sum(error * self.edge_error_scaling.get(edge, 1) for edge, error in edge_errors.items())", 1))

v("c18-peel-in-place", {"C18"}, (SDAG, "                temp_G[path[i]][path[i + 1]][flow_attr] = temp_G[path[i]][path[i + 1]][flow_attr] - bottleneck", "                temp_G[path[i]][path[i + 1]][flow_attr] -= bottleneck", 1))
v("c18-lowerbound-partial-cache", {"C18"}, ("flowpaths/minflowdecompcycles.py", "        except Exception:\n            self._lowerbound_k = None\n            raise", "        except Exception:\n            raise", 1))
v("c06-tolerance-unit-float64-only", {"C06"}, ("flowpaths/utils/safetyflowdecomp.py", "max([Fraction(math.ulp(float(max(abs(value) for value in bound_values))))] + narrow_spacings)", "Fraction(math.ulp(float(max(abs(value) for value in bound_values))))", 1))
v("c17-flow-width-raw-capacity", {"C17"}, (SDAG, "            if isinstance(edge_capacity, numbers.Integral):\n                edge_capacity = int(edge_capacity)\n", "", 1))
v("c04-cap-min-instead-of-one", {"C04", "C08"}, ("flowpaths/abstractwalkmodeldigraph.py", "                self.edge_upper_bounds[edge] = 1\n", "                self.edge_upper_bounds[edge] = min(1, self.edge_upper_bounds[edge])\n", 1))

# --- round-7 seeds: rules added / refined in DESIGN 12.4
_SUBL = "                temp_G[path[i]][path[i + 1]][flow_attr] = temp_G[path[i]][path[i + 1]][flow_attr] - bottleneck\n"
v("c01-peel-removes-saturated-node", {"C01", "C17", "C02"}, (SDAG, "            paths.append(path)\n            weights.append(bottleneck)\n",
  "            temp_G.remove_nodes_from([n for n in path if temp_G.degree(n) == 0])\n            paths.append(path)\n            weights.append(bottleneck)\n", 1))
v("c17-peel-subtraction-under-if", {"C17", "C02"}, (SDAG, _SUBL, "                if temp_G[path[i]][path[i + 1]][flow_attr] > bottleneck:\n    " + _SUBL, 1))
v("c17-peel-continue-before-subtraction", {"C17", "C02"}, (SDAG, _SUBL, "                if path[i] == path[i + 1]:\n                    continue\n" + _SUBL, 1))
v("benign-peel-log-after-subtraction", B, (SDAG, _SUBL, _SUBL + "                if temp_G[path[i]][path[i + 1]][flow_attr] < 0:\n                    utils.logger.debug(\"negative residue\")\n", 1))
v("c10-7a-sum-over-list-len-over-set", {"C10"}, (AW, "for e in constraint_as_set)", "for e in self.subset_constraints[j])", 1))
v("benign-7a-set-named-differently", B, (AW, "                constraint_as_set = set(self.subset_constraints[j])\n                constraint_length = len(constraint_as_set)\n",
  "                distinct_edges = set(self.subset_constraints[j])\n                constraint_length = len(distinct_edges)\n", 1), (AW, "for e in constraint_as_set)", "for e in distinct_edges)", 1))
v("c15-k-range-min-of-partition-sizes", {"C15"}, (MGS, "extra_for_partitions = sum(len(constraint) - 1 for constraint in (self.partition_constraints or []))",
  "extra_for_partitions = min((len(constraint) - 1 for constraint in (self.partition_constraints or [])), default=0)", 1))
v("c07-ignored-cap-max-of-caps", {"C07", "C04", "C08"}, (KLAEC, "ignored_edge_bound = self.G.number_of_edges() + math.ceil(sum(\n            bound for edge, bound in edge_repetition_bounds.items() if edge not in self.edges_to_ignore\n        ))",
  "ignored_edge_bound = self.G.number_of_edges() + math.ceil(max(\n            [bound for edge, bound in edge_repetition_bounds.items() if edge not in self.edges_to_ignore] + [0]\n        ))", 1))
v("benign-read-graph-edge-view-membership", B, (GU, "            if not G.has_edge(u, v):", "            if (u, v) not in G.edges():", 1))
v("c20-constraint-node-membership", {"C20"}, (GU, "            if not G.has_edge(u, v):", "            if u not in G or v not in G:", 1))
v("c05-greedy-threshold-floor", {"C05", "C03", "C10"}, (KFD, "                    constraint_length = len(subpath)\n", "                    constraint_length = len(subpath) - 1\n", 1))
