#!/usr/bin/env python3
"""CLI of the static-analysis framework:   ./check <property-id> [--tier quick|thorough] [--replay <file>]

exit 0: every structural obligation of the property holds on the current /repo working tree
        (listed known findings are printed as KNOWN-FINDING lines)
exit 1: a violation that KNOWN_FINDINGS.txt does not list ("VIOLATION property=<id> replay=<path>")
exit 2: the analysis itself is broken (anchor vanished, unparsable tree, internal error): ANALYSIS-ERROR
"""
from __future__ import annotations

import argparse
import importlib
import json
import os
import sys
import traceback

HERE = os.path.dirname(os.path.abspath(__file__))
sys.path.insert(0, HERE)

from sa.pm import Program, AnalysisError, AnchorVanished  # noqa: E402
from sa.report import Report  # noqa: E402


def run_property(pid: str, tier: str) -> int:
    try:
        mod = importlib.import_module(f"rules.{pid.lower()}")
    except ModuleNotFoundError:
        print(f"ANALYSIS-ERROR property={pid}: no rule module rules/{pid.lower()}.py (fail-closed)")
        return 2
    rep = Report(pid, tier)
    try:
        prog = Program()
        rep.decided = list(getattr(mod, "DECIDED", []))
        rep.not_decided = list(getattr(mod, "NOT_DECIDED", []))
        mod.check(prog, rep)
        if tier == "thorough" and hasattr(mod, "thorough"):
            mod.thorough(prog, rep)
        if tier == "thorough":
            from selftest import audit
            audit.run_for_property(pid, rep)
        code = rep.finish(prog, getattr(mod, "EXPLANATION", ""))
        if getattr(rep, "audit_failed", False) and code == 0:
            code = 2
        return code
    except AnalysisError as e:
        print(f"ANALYSIS-ERROR property={pid}: {e}")
        if rep.violations and not isinstance(e, AnchorVanished):
            # constructs already judged as violating stay reported: a violation takes precedence over the part of the
            # analysis that could not be completed (often the violating edit is what made the next idiom unrecognisable)
            rep.note(f"analysis aborted after the reported violation(s): {e}")
            rep.rules = {rid: r for rid, r in rep.rules.items() if r["instances"] or r["violations"]}
            code = rep.finish(prog, getattr(mod, "EXPLANATION", ""), aborted=True)
            return code if code == 1 else 2
        return 2
    except Exception:
        print(f"ANALYSIS-ERROR property={pid}: internal error")
        traceback.print_exc()
        return 2


def main(argv=None) -> int:
    ap = argparse.ArgumentParser()
    ap.add_argument("property", nargs="?")
    ap.add_argument("--tier", default=os.environ.get("VERIF_TIER", "quick"), choices=["quick", "thorough"])
    ap.add_argument("--replay", help="re-evaluate the property that produced this replay file and show whether the "
                                     "recorded rule instance still fails on the current tree")
    ap.add_argument("--selftest", action="store_true", help="run the committed self-test corpus")
    ap.add_argument("--all", action="store_true")
    a = ap.parse_args(argv)
    if a.selftest:
        from selftest import audit
        return audit.main(a.property)
    if a.replay:
        r = json.load(open(a.replay))
        code = run_property(r["property"], a.tier)
        return code
    if a.all:
        worst = 0
        for i in range(1, 21):
            worst = max(worst, run_property(f"C{i:02d}", a.tier))
        return worst
    if not a.property:
        ap.error("property id required")
    return run_property(a.property.upper(), a.tier)


if __name__ == "__main__":
    sys.exit(main())
