"""Re-derive the formulation table from the current /repo tree and write formulation/table.json.
Only to be run by hand after each row has been confirmed by reading (infer - confirm - freeze)."""
import json, sys
sys.path.insert(0, '/verif')
from sa.pm import Program
import rules.formulation as RF
from rules.formulation import current_table, TABLE
RF.FREEZE_MODE = True
RF._TABLE_KEYS = set()
tab = current_table(Program())
json.dump(tab, open(TABLE, 'w'), indent=1, sort_keys=True)
print(sum(len(v) for v in tab.values()), "effects in", len(tab), "methods")
