"""usage: tools/benign_run.py <dir with NN.diff>...   run every check against every behaviour-preserving patch; any exit != 0 is a false alarm"""
import glob, os, sys
VERIF = os.path.dirname(os.path.dirname(os.path.abspath(__file__)))
sys.path.insert(0, VERIF)
from concurrent.futures import ThreadPoolExecutor
from selftest import audit
jobs = []
for d in sys.argv[1:]:
    for p in sorted(glob.glob(os.path.join(d, "*.diff"))):
        jobs.append((os.path.relpath(p, os.path.dirname(d.rstrip("/"))), audit.__dict__.get("B", "benign"), None, audit.ALL, os.path.abspath(p)))
with ThreadPoolExecutor(max_workers=8) as ex:
    results = list(ex.map(audit.one, jobs))
ok, rows = audit.evaluate(results)
for r in rows:
    print(f"{r[0]:<20} {r[1]:<12} {r[2][:1500]}")
sys.exit(0 if ok else 1)
