"""Re-run the benign patches listed in benign/UNJUDGED.json (plus `name=reason` arguments for new entries) and refresh the list of
properties whose check ends with ANALYSIS-ERROR on each.  Refuses (exit 1) if any check reports a *violation* (exit 1) on one of
them; entries on which every check is silent again are dropped."""
import json, os, sys
VERIF = os.path.dirname(os.path.dirname(os.path.abspath(__file__)))
sys.path.insert(0, VERIF)
from concurrent.futures import ThreadPoolExecutor
from selftest import audit
fp = os.path.join(VERIF, "benign", "UNJUDGED.json")
cur = json.load(open(fp))
for a in sys.argv[1:]:
    name, why = a.split("=", 1)
    cur.setdefault(name, {"unjudged_by": [], "why": why})
jobs = [j for j in audit.jobs_for() if j[0] in cur]
with ThreadPoolExecutor(8) as ex:
    res = list(ex.map(audit.one, jobs))
out = {}
bad = False
for name, exp, msg, r in res:
    e1 = sorted(p for p, v in r.items() if v[0] == 1)
    e2 = sorted(p for p, v in r.items() if v[0] == 2)
    if e1:
        print("VIOLATION reported on a benign patch:", name, e1)
        bad = True
    if e2:
        out[name] = {"unjudged_by": e2, "why": cur[name]["why"]}
    print(name, e2 or "silent now")
if bad:
    sys.exit(1)
json.dump(out, open(fp, "w"), indent=1, sort_keys=True)
