"""Refresh MANIFEST.json's level_claimed.text from the EXPLANATION string of every rule module (single source of truth),
and validate against the schema when jsonschema is importable (python3-vt)."""
import importlib, json, os, sys
VERIF = os.path.dirname(os.path.dirname(os.path.abspath(__file__)))
sys.path.insert(0, VERIF)
mp = os.path.join(VERIF, "MANIFEST.json")
m = json.load(open(mp))
for c in m["checks"]:
    mod = importlib.import_module("rules." + c["property_id"].lower())
    c["level_claimed"]["text"] = "Clause-level claim, decided on every run from the current source: " + " ".join(mod.EXPLANATION.split())
json.dump(m, open(mp, "w"), indent=1)
try:
    import jsonschema
    jsonschema.validate(m, json.load(open("/root/.vp/MANIFEST.schema.json")))
    print("MANIFEST.json valid;", len(m["checks"]), "checks")
except ImportError:
    print("MANIFEST.json refreshed (jsonschema not importable here; validate with python3-vt)")
