import sys, json
sys.path.insert(0, '/verif')
from sa.pm import Program
from sa.mir import extract, canon_effect, var_families
prog = Program()
only = sys.argv[1] if len(sys.argv) > 1 else None
for cls in prog.all_classes():
    if only and cls.name != only: continue
    fams = var_families(prog, cls)
    if not fams and cls.name != 'SolverWrapper': continue
    for f in cls.methods.values():
        effs = extract(prog, f)
        if not effs: continue
        local_vars = {e.target for e in effs if e.kind == 'add_variables' and e.target}
        names = set(fams) | local_vars | {'binary_var','continuous_var','product_var','integer_var','x','y'} | {e.target.split('.')[-1] for e in effs if e.kind=='add_variables' and e.target}
        print(f"=== {cls.name}.{f.name}  ({len(effs)} effects)")
        for e in effs:
            c = canon_effect(e, names)
            print("  ", e.lineno, json.dumps(c)[:600])
