"""usage: tools/store_seed.py <seed name e.g. C03b> <dir with patch.diff demo.py meta.json> "<verdict line of tools/verify_seed.sh>"
Stores a confirmed seeded change under seeded/<name>/ (patch.diff, demo.py, meta.json)."""
import json, os, shutil, sys
VERIF = os.path.dirname(os.path.dirname(os.path.abspath(__file__)))
name, src, verdict = sys.argv[1:4]
if "demo clean=0 mutated=1 compile=0" not in verdict or "50 passed" not in verdict:
    sys.exit(f"{name}: not confirmed ({verdict})")
dst = os.path.join(VERIF, "seeded", name)
os.makedirs(dst, exist_ok=True)
shutil.copy(os.path.join(src, "patch.diff"), dst)
shutil.copy(os.path.join(src, "demo.py"), dst)
m = json.load(open(os.path.join(src, "meta.json")))
meta = {
    "property": m["property"], "seed": name,
    "origin": "written by an independent sub-agent that saw only the property text and a scratch worktree of /repo (nothing from /verif)",
    "summary": m.get("summary", ""), "files": m.get("files", []),
    "needs_to_manifest": m.get("needs_to_manifest", ""), "why_tests_pass": m.get("why_tests_pass", ""),
    "confirmed_by_me": {"how": "tools/verify_seed.sh: fresh scratch worktree of /repo HEAD; demo.py on the clean tree (must exit 0), git apply patch.diff, "
                               "compileall, demo.py again (must exit 1), full baseline pytest with the patch (50 stable tests must pass; the 4 "
                               "known-failing example tests are ignored)", "result": verdict},
    "detected_by": [], "analysis_errors": [], "first_reports": {},
}
json.dump(meta, open(os.path.join(dst, "meta.json"), "w"), indent=1)
print("stored", dst)
