#!/bin/sh
# usage: tools/with_patch.sh <patch.diff> <property...>  - run checks against /repo HEAD + patch in a scratch export (removed afterwards)
PATCH="$1"; shift
D=$(mktemp -d /tmp/verif_patch.XXXXXX)
git -C /repo archive HEAD flowpaths | tar -x -C "$D"
( cd "$D" && patch -p1 -s < "$PATCH" ) || { echo "PATCH-FAILED $PATCH"; rm -rf "$D"; exit 3; }
for P in "$@"; do
  VERIF_REPO="$D" VERIF_EVIDENCE_DIR="$D/evidence" "$(dirname "$0")/../check" "$P" 2>&1 | grep -v "^VIOLATION"
done
rm -rf "$D"
