"""usage: tools/diff_rows.py <patch.diff> <Class.method>   print tabled rows and current rows (after the patch) side by side"""
import sys, os, json, subprocess, tempfile, shutil
sys.path.insert(0, os.path.dirname(os.path.dirname(os.path.abspath(__file__))))
patch, key = sys.argv[1], sys.argv[2]
d = tempfile.mkdtemp(prefix="verif_dr_")
subprocess.check_call(f"git -C /repo archive HEAD flowpaths | tar -x -C {d}", shell=True)
subprocess.check_call(f"cd {d} && patch -p1 -s < {os.path.abspath(patch)}", shell=True)
os.environ["VERIF_REPO"] = d
from sa.pm import Program
from rules.formulation import method_effects, case_rows, load_table, payload_sig
p = Program()
print("notes:", p.normalisation_notes)
cname, m = key.split(".", 1)
cls = p.cls(cname)
cur = case_rows(method_effects(p, cls, cls.methods[m]))
tab = load_table()[key]
cs = {payload_sig(c): c for c in cur}
for r in tab:
    s = payload_sig(r)
    if s in cs and cs[s]["guard"] == r.get("guard"):
        continue
    print("TABLE :", json.dumps({k: v for k, v in r.items() if k not in ("serves",)}, sort_keys=True)[:1500])
    near = [c for c in cur if c["_fid"] == r["id"]]
    for c in near[:2]:
        print("  CODE:", json.dumps({k: v for k, v in c.items() if not k.startswith("_")}, sort_keys=True)[:1500])
    print()
shutil.rmtree(d)
