"""Run every check against every seeded change (scratch exports of /repo HEAD + patch; removed afterwards) and write
seeded/MATRIX.json + seeded/MATRIX.md.  Also updates `detected_by` in each meta.json."""
import json, os, subprocess, sys, tempfile, shutil, glob
from concurrent.futures import ThreadPoolExecutor
VERIF = os.path.dirname(os.path.dirname(os.path.abspath(__file__)))
seeds = sorted(d for d in os.listdir(os.path.join(VERIF, 'seeded')) if os.path.isdir(os.path.join(VERIF, 'seeded', d)))
only = sys.argv[1:] or seeds
PIDS = [f"C{i:02d}" for i in range(1, 21)]


def run_seed(sd):
    d = tempfile.mkdtemp(prefix='verif_seed_')
    try:
        subprocess.check_call(f"git -C /repo archive HEAD flowpaths | tar -x -C {d}", shell=True)
        p = subprocess.run(f"cd {d} && patch -p1 -s < {VERIF}/seeded/{sd}/patch.diff", shell=True, capture_output=True, text=True)
        if p.returncode != 0:
            return sd, {"_error": "patch does not apply: " + p.stdout[-200:]}
        res = {}
        for pid in PIDS:
            env = dict(os.environ, VERIF_REPO=d, VERIF_EVIDENCE_DIR=os.path.join(d, 'evidence'))
            r = subprocess.run([os.path.join(VERIF, 'check'), pid], capture_output=True, text=True, env=env)
            viol = [l.strip() for l in r.stdout.splitlines() if l.startswith('  ') and '[' in l]
            res[pid] = {"exit": r.returncode, "violations": [v[:300] for v in viol[:4]]}
        return sd, res
    finally:
        shutil.rmtree(d, ignore_errors=True)


with ThreadPoolExecutor(max_workers=8) as ex:
    results = dict(ex.map(run_seed, only))
mp = os.path.join(VERIF, 'seeded', 'MATRIX.json')
old = json.load(open(mp)) if os.path.exists(mp) else {}
old.update(results)
json.dump(old, open(mp, 'w'), indent=1, sort_keys=True)
lines = ["# Seeded changes x checks (exit 1 = violation reported, 2 = analysis error, . = silent)", "",
         "| seed | property it breaks | " + " | ".join(p[1:] for p in PIDS) + " | caught by |", "|---|---|" + "---|" * (len(PIDS) + 1)]
for sd in sorted(old):
    res = old[sd]
    meta = json.load(open(os.path.join(VERIF, 'seeded', sd, 'meta.json')))
    if "_error" in res:
        lines.append(f"| {sd} | {meta['property']} | " + res["_error"] + " |")
        continue
    caught = [p for p in PIDS if res[p]["exit"] == 1]
    meta["detected_by"] = caught
    meta["analysis_errors"] = [p for p in PIDS if res[p]["exit"] == 2]
    meta["first_reports"] = {p: res[p]["violations"][:1] for p in caught}
    json.dump(meta, open(os.path.join(VERIF, 'seeded', sd, 'meta.json'), 'w'), indent=1)
    lines.append(f"| {sd} | {meta['property']} | " + " | ".join({0: '.', 1: '**1**', 2: '2'}.get(res[p]['exit'], '?') for p in PIDS) + f" | {', '.join(caught) or 'MISSED'} |")
open(os.path.join(VERIF, 'seeded', 'MATRIX.md'), 'w').write("\n".join(lines) + "\n")
print("\n".join(lines[2:]))
