"""Freeze the list of functions (with their parameter names) of the reviewed tree: formulation/known_functions.json.
sa/inline.py inlines every helper that is *not* in this list back into its callers before any rule runs."""
import json, os, sys
sys.path.insert(0, '/verif')
os.environ["VERIF_NO_INLINE"] = "1"
import ast
from sa.pm import Program
from sa.inline import function_keys, KNOWN
prog = Program()
out = {}
for name, mod in sorted(prog.modules.items()):
    for key, node, cls, encl in function_keys(mod.tree, name):
        fn = node.value if isinstance(node, ast.Assign) else node
        a = fn.args
        out[key] = [p.arg for p in a.posonlyargs + a.args + a.kwonlyargs]
json.dump({"functions": out}, open(KNOWN, "w"), indent=0, sort_keys=True)
print(len(out), "functions frozen")
