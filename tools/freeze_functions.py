"""Freeze the list of functions (with their parameter names) of the reviewed tree: formulation/known_functions.json.
sa/inline.py inlines every helper that is *not* in this list back into its callers before any rule runs."""
import json, os, sys
sys.path.insert(0, '/verif')
os.environ["VERIF_NO_INLINE"] = "1"
import ast
from sa.pm import Program
from sa.inline import function_keys, KNOWN
prog = Program()
out = {}
for name, mod in sorted(prog.modules.items()):
    for key, node, cls, encl in function_keys(mod.tree, name):
        fn = node.value if isinstance(node, ast.Assign) else node
        a = fn.args
        out[key] = [p.arg for p in a.posonlyargs + a.args + a.kwonlyargs]
lit = {}
for name, mod in sorted(prog.modules.items()):
    for key, node, cls, encl in function_keys(mod.tree, name):
        if isinstance(node, ast.Assign):
            continue
        n = sum(1 for x in ast.walk(node) if isinstance(x, ast.For) and isinstance(x.iter, (ast.Tuple, ast.List)))
        if n:
            lit[key] = n
json.dump({"functions": out, "literal_loops": lit}, open(KNOWN, "w"), indent=0, sort_keys=True)
print(len(out), "functions frozen")
