#!/bin/sh
# usage: tools/verify_seed.sh <name> <dir with patch.diff demo.py>   -> prints a verdict line; uses a scratch worktree (removed afterwards)
NAME="$1"; SRC="$2"
WT=$(mktemp -d /tmp/verif_seedwt.XXXXXX); rmdir "$WT"
git -C /repo worktree add -q --detach "$WT" HEAD || exit 3
cd "$WT"
D0=$(PYTHONPATH="$WT" timeout 300 /venv/bin/python "$SRC/demo.py" >/tmp/vs_$NAME.clean.log 2>&1; echo $?)
if ! git apply "$SRC/patch.diff" 2>/tmp/vs_$NAME.apply.log; then echo "SEED $NAME: PATCH DOES NOT APPLY"; cd /; git -C /repo worktree remove --force "$WT"; exit 1; fi
/venv/bin/python -m compileall -q flowpaths >/dev/null 2>&1; C=$?
D1=$(PYTHONPATH="$WT" timeout 300 /venv/bin/python "$SRC/demo.py" >/tmp/vs_$NAME.mut.log 2>&1; echo $?)
T=$(/venv/bin/python -m pytest -q -p no:cacheprovider --timeout=900 -n 6 2>&1 | tail -1)
echo "SEED $NAME: demo clean=$D0 mutated=$D1 compile=$C tests: $T"
cd /; git -C /repo worktree remove --force "$WT"
