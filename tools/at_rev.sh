#!/bin/sh
# usage: tools/at_rev.sh <git-rev-of-/repo> <property...>   - run checks against an exported revision (scratch, removed afterwards)
REV="$1"; shift
D=$(mktemp -d /tmp/verif_rev.XXXXXX)
git -C /repo archive "$REV" flowpaths | tar -x -C "$D"
for P in "$@"; do
  VERIF_REPO="$D" VERIF_EVIDENCE_DIR="$D/evidence" "$(dirname "$0")/../check" "$P" 2>&1 | grep -v "^VIOLATION" 
done
rm -rf "$D"
