"""Re-derive the validation table (sites + delegations) from the current /repo tree -> formulation/validation.json.
Run by hand after confirming the rows by reading (infer - confirm - freeze)."""
import json, sys
sys.path.insert(0, '/verif')
from sa.pm import Program
from rules.val import current_sites, current_delegations, TABLE
prog = Program()
tab = {"sites": current_sites(prog), "delegations": current_delegations(prog)}
json.dump(tab, open(TABLE, 'w'), indent=1, sort_keys=True)
print(sum(len(v) for v in tab['sites'].values()), "sites in", len(tab['sites']), "functions;",
      sum(len(v) for v in tab['delegations'].values()), "delegations in", len(tab['delegations']), "functions")
