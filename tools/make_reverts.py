#!/usr/bin/env python3
"""Regression corpus: for every `fixed:` line of KNOWN_FINDINGS.txt, the reverse of the fix commit as a patch against /repo HEAD
(reverts/<commit>.diff + reverts/index.json).  Applying it re-introduces the defect; the property named in the line must then
report a violation again.  Reverts that no longer apply to HEAD (later repairs touched the same lines) are listed as 'superseded'.

usage: python3 tools/make_reverts.py      (rewrites /verif/reverts from /repo's history; run after new fix commits)
"""
import json, os, re, subprocess, tempfile, shutil

HERE = os.path.dirname(os.path.dirname(os.path.abspath(__file__)))
REPO = os.environ.get("VERIF_REPO", "/repo")
out = os.path.join(HERE, "reverts")
shutil.rmtree(out, ignore_errors=True)
os.makedirs(out)
index = []
for line in open(os.path.join(HERE, "KNOWN_FINDINGS.txt")):
    m = re.match(r"fixed: property=(C\d\d) ([0-9a-f]{7,})\b(.*)", line)
    if not m:
        continue
    pid, commit, what = m.group(1), m.group(2), m.group(3).strip()
    also = re.findall(r"\bC\d\d\b", what.split("; also")[-1]) if "; also" in what else []
    diff = subprocess.run(["git", "-C", REPO, "diff", commit, commit + "~1", "--", "flowpaths"], capture_output=True, text=True).stdout
    if not diff.strip():
        continue
    path = os.path.join(out, f"{commit}.diff")
    open(path, "w").write(diff)
    chk = subprocess.run(["git", "-C", REPO, "apply", "--check", path], capture_output=True, text=True)
    entry = {"commit": commit, "property": pid, "also": also, "what": what[:300], "applies": chk.returncode == 0}
    if chk.returncode != 0:
        entry["superseded"] = "the reverse patch no longer applies to HEAD: later repairs changed the same lines"
        os.remove(path)
    index.append(entry)
json.dump(index, open(os.path.join(out, "index.json"), "w"), indent=1)
print(f"{sum(e['applies'] for e in index)} reverts apply, {sum(not e['applies'] for e in index)} superseded")
