#!/bin/sh
# usage: tools/install_seed.sh <id e.g. C12d> <dir with patch.diff demo.py about.json> [missed-note]
# copies the seed, verifies it on a scratch worktree (tools/verify_seed.sh) and writes meta.json; keeps it only if the verdict is
# "demo clean=0 mutated=1 compile=0" with 50 passed tests
ID="$1"; SRC="$2"
HERE="$(cd "$(dirname "$0")/.." && pwd)"
D="$HERE/seeded/$ID"
mkdir -p "$D"
cp "$SRC/patch.diff" "$SRC/demo.py" "$D/"
V=$("$HERE/tools/verify_seed.sh" "$ID" "$D")
echo "$V"
case "$V" in
  *"demo clean=0 mutated=1 compile=0 tests: 4 failed, 50 passed"*) ;;
  *) echo "NOT KEPT: $ID"; rm -rf "$D"; exit 1;;
esac
python3 - "$ID" "$SRC" "$D" "$V" <<'PY'
import json, sys, re
sid, src, d, v = sys.argv[1:5]
a = json.load(open(src + "/about.json"))
meta = {"property": a.get("property", sid[:3]), "seed": sid,
        "origin": "written by an independent sub-agent that saw only the property text and a scratch worktree of /repo (nothing from /verif)",
        "summary": a.get("summary"), "files": a.get("files"), "needs_to_manifest": a.get("needs_to_manifest"), "why_tests_pass": a.get("why_tests_pass"),
        "confirmed_by_me": {"how": "tools/verify_seed.sh: fresh scratch worktree of /repo HEAD; demo.py on the clean tree (must exit 0), git apply patch.diff, compileall, demo.py again (must exit 1), full baseline pytest with the patch (50 stable tests must pass; the 4 known-failing example tests are ignored)",
                            "result": re.sub(r" in [0-9.]+s.*$", "", v.strip())},
        "detected_by": [], "analysis_errors": [], "first_reports": {}}
json.dump(meta, open(d + "/meta.json", "w"), indent=1)
PY
